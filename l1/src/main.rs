//! L1 simulator entry point. See /verif/DESIGN.md §2.2.
mod c05ops;
mod c08ops;
mod c10;
mod c19;
mod c20store;
mod c21;
mod c25;
mod c26;
mod c40;
mod c50;
mod c53;
mod objstore;
mod data;
mod envutil;
mod pool;
mod queries;
mod runner;
mod sim;
mod source;
mod sqlcheck;
mod sqlchecks;
mod sqlsim;

use dst_common::{Tier, seed_from_env};
use runner::Check;

fn checks() -> Vec<Check> {
    vec![c10::check(), c21::check(), c25::check(), c26::check(), c40::check(), c50::check(), c53::check(), sqlchecks::c02(), sqlchecks::c05(), sqlchecks::c06(), sqlchecks::c08(), sqlchecks::c18(), sqlchecks::c19(), sqlchecks::c20(), sqlchecks::c31()]
}

fn usage() -> ! {
    eprintln!("usage: l1 check <Cxx> [--tier quick|thorough] | l1 replay <file> [--log] | l1 determinism <Cxx> [n] | l1 list");
    std::process::exit(2)
}

/// Rare-branch probes for free: every `log::debug!` of the DataFusion crates that fires during a run is
/// counted under `log.<file>:<line>` (e.g. the multi-level merge re-spilling a skewed run, the nested
/// loop join entering its spill fallback). Nothing is formatted or printed; counting cannot influence
/// a schedule.
struct ProbeLogger;
impl log::Log for ProbeLogger {
    fn enabled(&self, m: &log::Metadata) -> bool {
        m.level() <= log::Level::Debug
            && ["datafusion_physical_plan", "datafusion_execution", "datafusion_datasource", "datafusion_physical_expr", "datafusion_catalog"]
                .iter()
                .any(|p| m.target().starts_with(p))
    }
    fn log(&self, r: &log::Record) {
        if self.enabled(r.metadata()) {
            let file = r.file().map(|f| f.rsplit('/').next().unwrap_or(f)).unwrap_or("?");
            sim::probe(&format!("probe.log.{}:{}", file, r.line().unwrap_or(0)));
        }
    }
    fn flush(&self) {}
}
static PROBE_LOGGER: ProbeLogger = ProbeLogger;

fn main() {
    let _ = log::set_logger(&PROBE_LOGGER);
    log::set_max_level(log::LevelFilter::Debug);
    let args: Vec<String> = std::env::args().skip(1).collect();
    if args.is_empty() {
        usage();
    }
    // Panics inside a simulated run are caught and classified; keep stderr quiet in children.
    std::panic::set_hook(Box::new(|info| {
        if std::env::var_os("VERIF_DEBUG").is_some() {
            eprintln!("[panic] {info}");
        }
        let msg = if let Some(s) = info.payload().downcast_ref::<&str>() {
            s.to_string()
        } else if let Some(s) = info.payload().downcast_ref::<String>() {
            s.clone()
        } else {
            "non-string panic".to_string()
        };
        let loc = info.location().map(|l| format!(" at {}:{}", l.file().rsplit('/').next().unwrap_or(""), l.line())).unwrap_or_default();
        sim::note_panic(format!("{msg}{loc}"));
    }));
    runner::ensure_no_aslr();
    datafusion_common_runtime::set_join_set_tracer(&sim::TRACER).expect("tracer");
    datafusion_common::verif::set_random_id_hook(sim::random_id_hook);
    datafusion_common::verif::set_order_hook(sim::order_hook);
    let all = checks();
    match args[0].as_str() {
        "list" => {
            for c in &all {
                println!("{}", c.property);
            }
        }
        "check" => {
            let id = args.get(1).cloned().unwrap_or_else(|| usage());
            let mut tier = std::env::var("VERIF_TIER").ok().and_then(|t| Tier::parse(&t)).unwrap_or(Tier::Quick);
            let mut i = 2;
            while i < args.len() {
                if args[i] == "--tier" {
                    tier = Tier::parse(args.get(i + 1).map(|s| s.as_str()).unwrap_or("")).unwrap_or_else(|| usage());
                    i += 1;
                }
                i += 1;
            }
            let Some(check) = all.iter().find(|c| c.property == id) else {
                eprintln!("l1: unknown property {id}");
                std::process::exit(2)
            };
            std::process::exit(runner::coordinator(check, tier, seed_from_env()));
        }
        "worker" => {
            let Some(check) = all.iter().find(|c| c.property == args[1]) else { usage() };
            let tier = Tier::parse(&args[2]).unwrap_or_else(|| usage());
            let seed: u64 = args[3].parse().unwrap();
            let w: u64 = args[4].parse().unwrap();
            let nw: u64 = args[5].parse().unwrap();
            let known: Vec<dst_common::Finding> = dst_common::load_findings(&dst_common::verif_root())
                .into_iter()
                .filter(|f| f.property == check.property)
                .collect();
            let v = runner::worker_main(check, tier, seed, w, nw, &known);
            println!("WORKER-RESULT {}", serde_json::to_string(&v).unwrap());
        }
        "replay" => {
            let path = args.get(1).cloned().unwrap_or_else(|| usage());
            let log = args.iter().any(|a| a == "--log");
            std::process::exit(runner::replay(&all, &path, log));
        }
        "dumpcase" => {
            // l1 dumpcase <Cxx> <index>: prints the replay-style JSON of a generated case (debugging aid)
            let Some(check) = all.iter().find(|c| c.property == args[1]) else { usage() };
            let idx: u64 = args[2].parse().unwrap();
            let (scn, case) = check.case_for(seed_from_env(), idx, Tier::Quick);
            println!("{}", serde_json::json!({"property": check.property, "level": "L1", "scenario": scn.name(), "case": case, "decisions": [], "case_index": idx}));
        }
        "selftest" => {
            // l1 selftest <Cxx> <index>: same case in-process twice, then in a forked child; first differing log line
            let Some(check) = all.iter().find(|c| c.property == args[1]) else { usage() };
            let idx: u64 = args[2].parse().unwrap();
            let (scn, case) = check.case_for(seed_from_env(), idx, Tier::Quick);
            let pre = if std::env::var_os("VERIF_SELFTEST_FORK_FIRST").is_some() { Some(runner::run_isolated(scn, &case, vec![], false, true).unwrap()) } else { None };
            let a = runner::run_here(scn, &case, vec![], false, true);
            let b = runner::run_here(scn, &case, vec![], false, true);
            let c = runner::run_isolated(scn, &case, vec![], false, true).unwrap();
            if let Some(p) = &pre {
                println!("forked-before-any-run: hash {} (first in-process {}, forked-after {})", p["trace_hash"], a["trace_hash"], c["trace_hash"]);
            }
            for (name, x) in [("second in-process", &b), ("forked", &c)] {
                let la = a["log"].as_array().unwrap();
                let lx = x["log"].as_array().unwrap();
                let pos = la.iter().zip(lx.iter()).position(|(p, q)| p != q);
                println!("{name}: hash {} vs {}; lens {} {}; first diff at {:?}", a["trace_hash"], x["trace_hash"], la.len(), lx.len(), pos);
                if let Some(p) = pos {
                    for i in p.saturating_sub(5)..(p + 5).min(la.len()).min(lx.len()) {
                        println!("   {i}: {} | {}", la[i], lx[i]);
                    }
                }
            }
        }
        "determinism" => {
            let id = args.get(1).cloned().unwrap_or_else(|| usage());
            let n: u64 = args.get(2).and_then(|s| s.parse().ok()).unwrap_or(400);
            let Some(check) = all.iter().find(|c| c.property == id) else { usage() };
            std::process::exit(runner::determinism(check, seed_from_env(), n));
        }
        _ => usage(),
    }
}
