//! L1 runner: one forked process per simulated run (pristine process image, ASLR off), the
//! coordinator that multiplexes them, replay, determinism gate and minimisation.

use crate::sim::{self, Policy};
use dst_common::rng::{Rng, splitmix};
use dst_common::{Counters, Evidence, Tier, classify_panic, load_findings, shrink_case, verif_root, write_replay};
use futures::FutureExt;
use serde_json::{Value, json};
use std::collections::{BTreeMap, HashSet};
use std::future::Future;
use std::panic::AssertUnwindSafe;
use std::pin::Pin;
use std::sync::atomic::{AtomicI32, Ordering};
use std::time::{Duration, Instant};

pub enum Outcome {
    Pass,
    /// malformed case (only while shrinking)
    Invalid,
    Violation(String, String),
}
pub fn violation(class: &str, msg: String) -> Outcome {
    Outcome::Violation(class.to_string(), msg)
}

pub type RunFuture = Pin<Box<dyn Future<Output = Outcome>>>;

pub trait Scenario: Sync + Send {
    fn name(&self) -> &'static str;
    /// Generates the workload, fault script and configuration. The harness adds `sched`.
    fn generate(&self, rng: &mut Rng, tier: Tier) -> Value;
    fn run(&self, case: Value) -> RunFuture;
    fn weight(&self) -> u64 {
        1
    }
    fn step_budget(&self) -> u64 {
        3_000_000
    }
}

pub struct Check {
    pub property: &'static str,
    pub level: &'static str,
    pub scenarios: Vec<Box<dyn Scenario>>,
    pub cases_quick: u64,
    pub cases_thorough: u64,
    pub rule: &'static str,
    pub assumptions: Vec<&'static str>,
    pub components: Value,
}
impl Check {
    pub fn scenario(&self, name: &str) -> Option<&dyn Scenario> {
        self.scenarios.iter().find(|s| s.name() == name).map(|b| b.as_ref())
    }
    pub fn n_cases(&self, tier: Tier) -> u64 {
        let base = match tier {
            Tier::Quick => self.cases_quick,
            Tier::Thorough => self.cases_thorough,
        };
        match std::env::var("VERIF_SCALE").ok().and_then(|s| s.parse::<f64>().ok()) {
            Some(f) => ((base as f64) * f).max(1.0) as u64,
            None => base,
        }
    }
    pub fn scenario_for(&self, i: u64) -> &dyn Scenario {
        let total: u64 = self.scenarios.iter().map(|s| s.weight()).sum();
        let mut k = i % total;
        for s in &self.scenarios {
            if k < s.weight() {
                return s.as_ref();
            }
            k -= s.weight();
        }
        self.scenarios[0].as_ref()
    }
    pub fn case_for(&self, seed: u64, i: u64, tier: Tier) -> (&dyn Scenario, Value) {
        let scn = self.scenario_for(i);
        let mut rng = Rng::new(splitmix(seed, i));
        let mut case = scn.generate(&mut rng, tier);
        case["sched"] = Policy::generate(&mut rng);
        (scn, case)
    }
}

// ---------------------------------------------------------------------------------------
// Child side

static RESULT_FD: AtomicI32 = AtomicI32::new(-1);
pub const WATCHDOG_SECS: u64 = 10_000_000;

fn write_all_fd(fd: i32, mut buf: &[u8]) {
    while !buf.is_empty() {
        let n = unsafe { libc::write(fd, buf.as_ptr() as *const libc::c_void, buf.len()) };
        if n <= 0 {
            break;
        }
        buf = &buf[n as usize..];
    }
}

fn result_json(class: Option<(String, String)>, invalid: bool, want_decisions: bool, sim_ms: u64) -> Value {
    let s = sim::take();
    let mut v = json!({"invalid": invalid, "sim_ms": sim_ms});
    if let Some(s) = s {
        let (class, message) = match class {
            Some((c, m)) => {
                let c = if s.tag.is_empty() { c } else { format!("{c}@{}", s.tag) };
                (Some(c), m)
            }
            None => (None, String::new()),
        };
        v["class"] = json!(class);
        v["message"] = json!(message);
        v["trace_hash"] = json!(s.trace_hash);
        v["steps"] = json!(s.steps);
        v["deferred"] = json!(s.polls_deferred);
        v["tasks"] = json!(s.tasks_spawned);
        v["nontrivial"] = json!(s.nontrivial_decisions);
        v["max_runnable"] = json!(s.max_runnable);
        v["n_decisions"] = json!(s.decisions.len());
        v["probes"] = s.probes.to_json();
        v["blocking"] = json!(s.blocking_used);
        if want_decisions || class_is_some(&v) {
            v["decisions"] = json!(s.decisions);
        }
        if let Some(l) = s.log {
            v["log"] = json!(l);
        }
    } else if let Some((c, m)) = class {
        v["class"] = json!(c);
        v["message"] = json!(m);
    }
    v
}
fn class_is_some(v: &Value) -> bool {
    v.get("class").is_some_and(|c| !c.is_null())
}

/// Ends the run immediately from anywhere inside the simulation (the process is one run).
pub fn abort_run(class: &str, msg: &str) -> ! {
    let fd = RESULT_FD.load(Ordering::Relaxed);
    if fd >= 0 {
        // forked child: the process is the run
        let v = result_json(Some((class.to_string(), msg.to_string())), false, true, 0);
        write_all_fd(fd, serde_json::to_string(&v).unwrap().as_bytes());
        unsafe { libc::_exit(0) }
    }
    // in-process run: unwind; every later poll of any simulated task lands here again, so the
    // panic reaches the root (block_on) at the latest when the runtime goes idle
    panic!("VIOLATION[{class}] {msg}");
}

/// Runs one simulation in the current process and returns its result JSON.
pub fn run_here(scn: &dyn Scenario, case: &Value, replay: Vec<u32>, want_decisions: bool, log: bool) -> Value {
    let sched = &case["sched"];
    let seed = sched.get("seed").and_then(|x| x.as_u64()).unwrap_or(1);
    foldhash::verif_reseed_thread(splitmix(seed, 77));
    sim::install(Policy::from_case(sched), seed, replay, scn.step_budget(), log);
    let rt = tokio::runtime::Builder::new_current_thread()
        .enable_time()
        .start_paused(true)
        .build()
        .expect("runtime");
    let fut = scn.run(case.clone());
    let t0 = tokio::time::Instant::now();
    let mut sim_ms = 0u64;
    let outcome = std::panic::catch_unwind(AssertUnwindSafe(|| {
        rt.block_on(sim::new_task(async {
            let start = tokio::time::Instant::now();
            let r = tokio::select! {
                biased;
                r = AssertUnwindSafe(fut).catch_unwind() => Some(r),
                _ = tokio::time::sleep(Duration::from_secs(WATCHDOG_SECS)) => None,
            };
            sim_ms = start.elapsed().as_millis() as u64;
            r
        }))
    }));
    let outcome = match outcome {
        Ok(o) => o,
        Err(p) => Some(Err(p)),
    };
    let _ = t0;
    let class = match outcome {
        None => Some(("deadlock".to_string(), "every task is blocked and no timer is pending: the run can never finish".to_string())),
        Some(Ok(Outcome::Pass)) => None,
        Some(Ok(Outcome::Invalid)) => {
            drop(rt);
            return result_json(None, true, false, 0);
        }
        Some(Ok(Outcome::Violation(c, m))) => Some((c, m)),
        Some(Err(p)) => {
            let msg = if let Some(s) = p.downcast_ref::<&str>() {
                s.to_string()
            } else if let Some(s) = p.downcast_ref::<String>() {
                s.clone()
            } else {
                "non-string panic".to_string()
            };
            let (c, m) = classify_panic(&msg);
            Some((c, m))
        }
    };
    // an abort requested from inside the simulation (step budget, starvation of the runtime, ...)
    // overrides whatever the unwinding turned it into
    let class = match sim::try_with(|s| s.abort.clone()).flatten() {
        Some(a) => Some(a),
        None => class,
    };
    let mut v = result_json(class, false, want_decisions, sim_ms.min(WATCHDOG_SECS * 1000));
    if v["blocking"] == json!(true) {
        v["harness_error"] = json!("spawn_blocking was used: work ran outside the simulator");
    }
    if RESULT_FD.load(Ordering::Relaxed) >= 0 {
        // forked child: the process ends here, no need to tear the runtime down
        std::mem::forget(rt);
    } else {
        // in-process: cancel whatever is left (tasks, timers) before the next run
        let _ = std::panic::catch_unwind(AssertUnwindSafe(move || drop(rt)));
    }
    v
}

// ---------------------------------------------------------------------------------------
// Parent side: fork-per-run pool

struct Child {
    pid: i32,
    fd: i32,
    buf: Vec<u8>,
    key: u64,
    started: Instant,
}

pub struct Pool {
    children: Vec<Child>,
    pub max: usize,
}

pub enum Job<'a> {
    Run { scn: &'a dyn Scenario, case: &'a Value, replay: Vec<u32>, want_decisions: bool, log: bool },
}

impl Pool {
    pub fn new(max: usize) -> Self {
        Pool { children: vec![], max }
    }
    pub fn busy(&self) -> usize {
        self.children.len()
    }
    /// Forks a child that runs the job and writes its result JSON to a pipe.
    pub fn spawn(&mut self, key: u64, job: Job<'_>) {
        let mut fds = [0i32; 2];
        if unsafe { libc::pipe(fds.as_mut_ptr()) } != 0 {
            eprintln!("l1: pipe() failed");
            std::process::exit(2);
        }
        let pid = unsafe { libc::fork() };
        if pid < 0 {
            eprintln!("l1: fork() failed");
            std::process::exit(2);
        }
        if pid == 0 {
            unsafe { libc::close(fds[0]) };
            for c in &self.children {
                unsafe { libc::close(c.fd) };
            }
            RESULT_FD.store(fds[1], Ordering::Relaxed);
            let Job::Run { scn, case, replay, want_decisions, log } = job;
            let v = run_here(scn, case, replay, want_decisions, log);
            write_all_fd(fds[1], serde_json::to_string(&v).unwrap().as_bytes());
            unsafe { libc::_exit(0) }
        }
        unsafe { libc::close(fds[1]) };
        self.children.push(Child { pid, fd: fds[0], buf: vec![], key, started: Instant::now() });
    }
    /// Waits until at least one child finished; returns (key, result or error text).
    pub fn wait_any(&mut self) -> Vec<(u64, Result<Value, String>)> {
        let mut done = vec![];
        while done.is_empty() && !self.children.is_empty() {
            let mut pfds: Vec<libc::pollfd> =
                self.children.iter().map(|c| libc::pollfd { fd: c.fd, events: libc::POLLIN, revents: 0 }).collect();
            let n = unsafe { libc::poll(pfds.as_mut_ptr(), pfds.len() as libc::nfds_t, 1000) };
            if n < 0 {
                continue;
            }
            let mut finished = vec![];
            for (i, p) in pfds.iter().enumerate() {
                if p.revents != 0 {
                    let mut tmp = [0u8; 65536];
                    let r = unsafe { libc::read(p.fd, tmp.as_mut_ptr() as *mut libc::c_void, tmp.len()) };
                    if r > 0 {
                        self.children[i].buf.extend_from_slice(&tmp[..r as usize]);
                    } else {
                        finished.push(i);
                    }
                } else if self.children[i].started.elapsed() > Duration::from_secs(child_timeout_secs()) {
                    unsafe { libc::kill(self.children[i].pid, libc::SIGKILL) };
                    finished.push(i);
                }
            }
            for i in finished.into_iter().rev() {
                let c = self.children.remove(i);
                let mut status = 0i32;
                unsafe {
                    libc::close(c.fd);
                    libc::waitpid(c.pid, &mut status, 0);
                }
                let res = if libc::WIFEXITED(status) && libc::WEXITSTATUS(status) == 0 {
                    serde_json::from_slice::<Value>(&c.buf).map_err(|e| format!("child result unparsable: {e}"))
                } else if c.started.elapsed() > Duration::from_secs(child_timeout_secs()) {
                    Err("wall-clock timeout".to_string())
                } else {
                    Err(format!("child died with wait status {status:#x} (signal or abort) after writing {} bytes", c.buf.len()))
                };
                done.push((c.key, res));
            }
        }
        done
    }
}

fn child_timeout_secs() -> u64 {
    std::env::var("VERIF_CHILD_TIMEOUT").ok().and_then(|s| s.parse().ok()).unwrap_or(180)
}

/// Runs one job in a fresh child and waits for it.
pub fn run_isolated(scn: &dyn Scenario, case: &Value, replay: Vec<u32>, want_decisions: bool, log: bool) -> Result<Value, String> {
    let mut p = Pool::new(1);
    p.spawn(0, Job::Run { scn, case, replay, want_decisions, log });
    p.wait_any().pop().map(|x| x.1).unwrap_or_else(|| Err("no result".into()))
}

/// Disables ASLR for this process image (re-executes once) so that addresses, and everything
/// derived from them, are identical in a run and in its replay.
pub fn ensure_no_aslr() {
    const ADDR_NO_RANDOMIZE: libc::c_ulong = 0x0040000;
    unsafe {
        let cur = libc::personality(0xffffffff);
        if cur >= 0 && (cur as libc::c_ulong & ADDR_NO_RANDOMIZE) == 0 {
            if std::env::var_os("VERIF_ASLR_REEXEC").is_some() {
                return; // already tried; continue with ASLR (determinism gate still applies)
            }
            libc::personality(cur as libc::c_ulong | ADDR_NO_RANDOMIZE);
            let exe = std::env::current_exe().expect("current_exe");
            let args: Vec<String> = std::env::args().skip(1).collect();
            use std::os::unix::process::CommandExt;
            let err = std::process::Command::new(exe).args(args).env("VERIF_ASLR_REEXEC", "1").exec();
            eprintln!("l1: re-exec failed: {err}");
        }
    }
}

// ---------------------------------------------------------------------------------------
// Coordinator

pub struct Agg {
    pub runs: u64,
    pub steps: u64,
    pub deferred: u64,
    pub tasks: u64,
    pub sim_ms: u64,
    pub decisions: u64,
    pub max_runnable: u64,
    pub probes: Counters,
    pub hashes: HashSet<u64>,
    pub nontrivial_hashes: HashSet<u64>,
    pub samples: Vec<Value>,
    pub invalid: u64,
    pub known_hits: BTreeMap<String, String>,
    pub recheck: u64,
    pub distinct_total: u64,
    pub nontrivial_total: u64,
}
impl Agg {
    fn new() -> Agg {
        Agg {
            runs: 0, steps: 0, deferred: 0, tasks: 0, sim_ms: 0, decisions: 0, max_runnable: 0,
            probes: Counters::default(), hashes: HashSet::new(), nontrivial_hashes: HashSet::new(),
            samples: vec![], invalid: 0, known_hits: BTreeMap::new(), recheck: 0, distinct_total: 0, nontrivial_total: 0,
        }
    }
}

fn fold(agg: &mut Agg, i: u64, r: &Value) {
    agg.runs += 1;
    agg.steps += r["steps"].as_u64().unwrap_or(0);
    agg.deferred += r["deferred"].as_u64().unwrap_or(0);
    agg.tasks += r["tasks"].as_u64().unwrap_or(0);
    agg.sim_ms += r["sim_ms"].as_u64().unwrap_or(0);
    agg.decisions += r["n_decisions"].as_u64().unwrap_or(0);
    agg.max_runnable = agg.max_runnable.max(r["max_runnable"].as_u64().unwrap_or(0));
    let probes = Counters::from_json(&r["probes"]);
    let fault_fired = probes.0.iter().any(|(k, v)| k.starts_with("fault.") && *v > 0);
    agg.probes.merge(&probes);
    let h = splitmix(r["trace_hash"].as_u64().unwrap_or(0), i);
    agg.hashes.insert(h);
    if r["nontrivial"].as_u64().unwrap_or(0) > 0 || fault_fired {
        agg.nontrivial_hashes.insert(h);
    }
    if r["invalid"] == json!(true) {
        agg.invalid += 1;
    }
}

/// One worker process: handles cases i ≡ w (mod nw), each in its own forked child, sequentially.
/// Stops at its first failure that is not a listed known finding. Returns its aggregate as JSON.
pub fn worker_main(check: &Check, tier: Tier, seed: u64, w: u64, nw: u64, known: &[dst_common::Finding]) -> Value {
    let n = check.n_cases(tier);
    let mut agg = Agg::new();
    let recheck_every: u64 = if tier == Tier::Thorough { 20 } else { 40 };
    let mut errors: Vec<String> = vec![];
    let mut failure: Option<Value> = None;
    // case indices are dealt to the workers in rotated blocks (block q gives worker w the index
    // q*nw + (w+q) mod nw): a plain stride would alias with the scenario weights and the re-run
    // period and leave a few workers with all the expensive cases
    let mut q = 0u64;
    loop {
        let i = q * nw + (w + q) % nw;
        q += 1;
        if i >= n {
            if (q - 1) * nw >= n {
                break;
            }
            continue;
        }
        if !(errors.is_empty() && failure.is_none()) {
            break;
        }
        let (scn, case) = check.case_for(seed, i, tier);
        // Runs execute in this process (fork-per-run does not scale on this VM); anything that
        // matters is re-executed in a fresh forked process below and must agree exactly.
        let first: Result<Value, String> = Ok(run_here(scn, &case, vec![], false, false));
        match first {
            Err(e) => errors.push(format!("case {i} ({}): {e}", scn.name())),
            Ok(r) => {
                if let Some(e) = r.get("harness_error").and_then(|x| x.as_str()) {
                    errors.push(format!("case {i} ({}): {e}", scn.name()));
                    break;
                }
                fold(&mut agg, i, &r);
                if agg.samples.is_empty() && i < nw {
                    agg.samples.push(json!({"scenario": scn.name(), "case_index": i, "case": case, "task_polls": r["steps"], "tasks": r["tasks"], "outcome": r["class"]}));
                }
                // determinism gate: a sample of cases, and every failing case, is executed a second
                // time in a fresh forked process; trace hash and outcome must be identical
                if i % recheck_every == 0 || class_is_some(&r) {
                    match run_isolated(scn, &case, vec![], false, false) {
                        Ok(r2) => {
                            agg.recheck += 1;
                            if r2["class"] != r["class"] {
                                // a verdict that does not repeat is a harness error: nothing may be reported
                                errors.push(format!(
                                    "NONDETERMINISM: case {i} ({}) gave trace {}/{} then {}/{}",
                                    scn.name(), r["trace_hash"], r["class"], r2["trace_hash"], r2["class"]
                                ));
                            } else if r2["trace_hash"] != r["trace_hash"] {
                                // both executions passed (or failed alike) but took different schedules: some
                                // source of order is not behind a seam yet. Counted and shown in the evidence
                                // (`probe.rerun_trace_diverged`); verdicts are unaffected because every candidate
                                // violation is replayed from its explicit decision list before it is reported
                                agg.probes.add("probe.rerun_trace_diverged", 1);
                                eprintln!("l1: note: case {i} ({}) repeated with the same outcome but another trace ({} then {})", scn.name(), r["trace_hash"], r2["trace_hash"]);
                            }
                        }
                        Err(e) => errors.push(format!("case {i} re-run: {e}")),
                    }
                }
                if class_is_some(&r) {
                    let sig = format!("{}:{}", scn.name(), r["class"].as_str().unwrap_or(""));
                    if let Some(f) = known.iter().find(|f| f.signature == sig) {
                        agg.known_hits.entry(sig).or_insert_with(|| f.text.clone());
                        agg.probes.add("known_finding_hits", 1);
                    } else {
                        // re-run to capture the decision list
                        let full = run_isolated(scn, &case, vec![], true, false).unwrap_or(r.clone());
                        failure = Some(json!({"index": i, "scenario": scn.name(), "case": case, "result": full}));
                    }
                }
            }
        }
    }
    json!({
        "runs": agg.runs, "steps": agg.steps, "deferred": agg.deferred, "tasks": agg.tasks, "sim_ms": agg.sim_ms,
        "decisions": agg.decisions, "max_runnable": agg.max_runnable, "probes": agg.probes.to_json(),
        "distinct": agg.hashes.len(), "nontrivial": agg.nontrivial_hashes.len(), "samples": agg.samples,
        "invalid": agg.invalid, "recheck": agg.recheck,
        "known_hits": agg.known_hits.iter().map(|(k, v)| json!([k, v])).collect::<Vec<_>>(),
        "errors": errors, "failure": failure,
    })
}

pub fn coordinator(check: &Check, tier: Tier, seed: u64) -> i32 {
    let root = verif_root();
    let t0 = Instant::now();
    let workers: u64 = std::env::var("VERIF_WORKERS").ok().and_then(|s| s.parse().ok()).unwrap_or(16);
    let n = check.n_cases(tier);
    println!("l1: property={} tier={} VERIF_SEED={} cases={} workers={}", check.property, tier.as_str(), seed, n, workers);
    let known: Vec<dst_common::Finding> =
        load_findings(&root).into_iter().filter(|f| f.property == check.property).collect();
    // Workers are separate executions of this binary (their own address space: children forked by
    // different workers then share no copy-on-write pages, which is what lets the runs scale).
    let exe = std::env::current_exe().expect("current_exe");
    let mut procs: Vec<std::process::Child> = vec![];
    for w in 0..workers {
        let child = std::process::Command::new(&exe)
            .args(["worker", check.property, tier.as_str(), &seed.to_string(), &w.to_string(), &workers.to_string()])
            .stdin(std::process::Stdio::null())
            .stdout(std::process::Stdio::piped())
            .stderr(std::process::Stdio::inherit())
            .spawn()
            .expect("spawn worker");
        procs.push(child);
    }
    let mut agg = Agg::new();
    let mut distinct = 0u64;
    let mut nontrivial = 0u64;
    let mut harness_errors: Vec<String> = vec![];
    let mut crashes: Vec<(u64, i32)> = vec![];
    let mut failures: BTreeMap<u64, (String, Value, Value)> = BTreeMap::new();
    for (w, mut child) in procs.into_iter().enumerate() {
        let mut buf = vec![];
        {
            use std::io::Read;
            let _ = child.stdout.take().unwrap().read_to_end(&mut buf);
        }
        let st = child.wait().expect("wait");
        let status = if st.success() { 0 } else { 1 };
        let buf: Vec<u8> = match buf.windows(14).position(|w| w == b"WORKER-RESULT ") {
            Some(p) => buf[p + 14..].to_vec(),
            None => vec![],
        };
        match serde_json::from_slice::<Value>(&buf) {
            Ok(v) if status == 0 => {
                agg.runs += v["runs"].as_u64().unwrap_or(0);
                agg.steps += v["steps"].as_u64().unwrap_or(0);
                agg.deferred += v["deferred"].as_u64().unwrap_or(0);
                agg.tasks += v["tasks"].as_u64().unwrap_or(0);
                agg.sim_ms += v["sim_ms"].as_u64().unwrap_or(0);
                agg.decisions += v["decisions"].as_u64().unwrap_or(0);
                agg.max_runnable = agg.max_runnable.max(v["max_runnable"].as_u64().unwrap_or(0));
                agg.probes.merge(&Counters::from_json(&v["probes"]));
                agg.invalid += v["invalid"].as_u64().unwrap_or(0);
                agg.recheck += v["recheck"].as_u64().unwrap_or(0);
                distinct += v["distinct"].as_u64().unwrap_or(0);
                nontrivial += v["nontrivial"].as_u64().unwrap_or(0);
                if agg.samples.len() < 3 {
                    agg.samples.extend(v["samples"].as_array().cloned().unwrap_or_default());
                }
                for k in v["known_hits"].as_array().cloned().unwrap_or_default() {
                    agg.known_hits.insert(k[0].as_str().unwrap_or("").to_string(), k[1].as_str().unwrap_or("").to_string());
                }
                for e in v["errors"].as_array().cloned().unwrap_or_default() {
                    harness_errors.push(e.as_str().unwrap_or("").to_string());
                }
                if !v["failure"].is_null() {
                    let f = &v["failure"];
                    failures.insert(
                        f["index"].as_u64().unwrap_or(0),
                        (f["scenario"].as_str().unwrap_or("").to_string(), f["case"].clone(), f["result"].clone()),
                    );
                }
            }
            _ => {
                use std::os::unix::process::ExitStatusExt;
                // a worker killed by a signal while it runs the real code (abort after a panic inside a
                // destructor, stack overflow, segfault) is a finding about that code: reported as a violation
                // whose replay file re-runs the worker's slice of cases
                match st.signal() {
                    Some(sig) => crashes.push((w as u64, sig)),
                    None => harness_errors.push(format!("worker {w} died (wait status {status:#x})")),
                }
            }
        }
    }
    agg.distinct_total = distinct;
    agg.nontrivial_total = nontrivial;
    if !harness_errors.is_empty() {
        for e in harness_errors.iter().take(5) {
            eprintln!("l1: HARNESS ERROR: {e}");
        }
        return 2;
    }
    if agg.invalid > 0 {
        eprintln!("l1: HARNESS ERROR: {} generated cases were rejected as malformed by their own scenario", agg.invalid);
        return 2;
    }
    if let Some((w, sig)) = crashes.first() {
        let file = json!({
            "property": check.property, "level": "L1", "scenario": "worker-slice", "class": "crash",
            "message": format!("the process running the cases of worker {w} was killed by signal {sig} (an abort inside the code under test, e.g. a panic in a destructor during unwinding)"),
            "crash": {"tier": tier.as_str(), "seed": seed, "worker": w, "workers": workers},
            "case": Value::Null, "decisions": [], "case_index": 0,
        });
        let dir = root.join("replays");
        let _ = std::fs::create_dir_all(&dir);
        let path = dir.join(format!("{}-L1-{seed}.json", check.property));
        let _ = std::fs::write(&path, serde_json::to_string_pretty(&file).unwrap_or_default());
        println!("l1: violation class=crash scenario=worker-slice — {}", file["message"].as_str().unwrap_or(""));
        println!("VIOLATION property={} replay={}", check.property, path.display());
        return 1;
    }
    for (sig, text) in &agg.known_hits {
        println!("KNOWN-FINDING: property={} signature={sig} {text}", check.property);
    }
    let mut violations = 0;
    let mut exit = 0;
    let mut extra_notes = vec![];
    if let Some((idx, (scn_name, case, r))) = failures.into_iter().next() {
        let scn = check.scenario(&scn_name).unwrap();
        match confirm_and_minimise(check, scn, idx, &case, &r, seed) {
            Ok((path, summary)) => {
                violations = 1;
                exit = 1;
                extra_notes.push(("violation".to_string(), summary));
                println!("VIOLATION property={} replay={}", check.property, path.display());
            }
            Err(e) => {
                eprintln!("l1: HARNESS ERROR: candidate violation did not replay deterministically: {e}");
                return 2;
            }
        }
    }
    let wall = t0.elapsed().as_secs_f64();
    let ev = evidence(check, tier, seed, &agg, wall, violations, extra_notes);
    match ev.write(&root) {
        Ok(p) => println!("l1: evidence written to {}", p.display()),
        Err(e) => {
            eprintln!("l1: cannot write evidence: {e}");
            return 2;
        }
    }
    println!(
        "l1: {} runs ({} distinct non-trivial traces), {} task polls, {} simulated s, {} determinism re-runs, {:.1}s wall, violations={}",
        agg.runs, agg.nontrivial_total, agg.steps, agg.sim_ms / 1000, agg.recheck, wall, violations
    );
    exit
}

fn evidence(check: &Check, tier: Tier, seed: u64, a: &Agg, wall: f64, violations: u64, extra_notes: Vec<(String, Value)>) -> Evidence {
    let mut extra = serde_json::Map::new();
    extra.insert("simulator".into(), json!("L1: tokio current_thread + paused clock; every task spawned through JoinSetTracer is gated by the seeded scheduler (policies: random, sticky, pct, starve-one, round-robin, newest, oldest); one forked process per run, ASLR off; seeded foldhash"));
    extra.insert("runs".into(), json!(a.runs));
    extra.insert("distinct_traces".into(), json!(a.distinct_total));
    extra.insert("task_polls".into(), json!(a.steps));
    extra.insert("deferred_polls".into(), json!(a.deferred));
    extra.insert("tasks_spawned".into(), json!(a.tasks));
    extra.insert("scheduling_decisions".into(), json!(a.decisions));
    extra.insert("max_runnable_tasks".into(), json!(a.max_runnable));
    extra.insert("simulated_time_s".into(), json!(a.sim_ms as f64 / 1000.0));
    extra.insert("runs_per_hour".into(), json!(if wall > 0.0 { (a.runs as f64 / wall * 3600.0) as u64 } else { 0 }));
    extra.insert("faults_fired".into(), a.probes.with_prefix("fault."));
    extra.insert("probes".into(), a.probes.with_prefix("probe."));
    extra.insert("determinism_reruns_identical".into(), json!(a.recheck));
    extra.insert("known_finding_hits".into(), json!(a.probes.get("known_finding_hits")));
    extra.insert("components".into(), check.components.clone());
    for (k, v) in extra_notes {
        extra.insert(k, v);
    }
    // a part of the same check executed by the L2 simulator (bin/check runs it first)
    let mut evaluations = a.runs;
    let mut distinct_nontrivial = a.nontrivial_total;
    let part = verif_root().join("evidence").join(format!("{}-l2.part.json", check.property));
    if let Ok(text) = std::fs::read_to_string(&part) {
        if let Ok(v) = serde_json::from_str::<Value>(&text) {
            if v["seed"].as_u64() == Some(seed) && v["tier"].as_str() == Some(tier.as_str()) {
                evaluations += v["coverage"]["evaluations"].as_u64().unwrap_or(0);
                distinct_nontrivial += v["coverage"]["distinct_nontrivial"].as_u64().unwrap_or(0);
                extra.insert("l2_part".into(), v["coverage"].clone());
            }
        }
        let _ = std::fs::remove_file(&part);
    }
    Evidence {
        property_id: check.property.to_string(),
        tier,
        seed,
        level: check.level.to_string(),
        evaluations,
        distinct_nontrivial,
        rule: check.rule.to_string(),
        samples: a.samples.clone(),
        extra,
        assumptions: check.assumptions.iter().map(|s| s.to_string()).collect(),
        wall_s: wall,
        violations,
    }
}

fn replay_value(check: &Check, scn: &dyn Scenario, idx: u64, case: &Value, r: &Value) -> Value {
    json!({
        "property": check.property,
        "level": "L1",
        "scenario": scn.name(),
        "class": r["class"],
        "signature": format!("{}:{}", scn.name(), r["class"].as_str().unwrap_or("")),
        "message": r["message"],
        "case_index": idx,
        "trace_hash": r["trace_hash"],
        "case": case,
        "decisions": r["decisions"],
    })
}

fn decisions_of(v: &Value) -> Vec<u32> {
    v.as_array().map(|a| a.iter().map(|x| x.as_u64().unwrap_or(0) as u32).collect()).unwrap_or_default()
}

fn confirm_and_minimise(
    check: &Check,
    scn: &dyn Scenario,
    idx: u64,
    case: &Value,
    r: &Value,
    seed: u64,
) -> Result<(std::path::PathBuf, Value), String> {
    let root = verif_root();
    let class = r["class"].as_str().unwrap_or("").to_string();
    // 1. determinism gate: the failing run, re-executed from its explicit decision list in a fresh
    //    process, must give the same class and the same trace hash — twice.
    let dec = decisions_of(&r["decisions"]);
    for _ in 0..2 {
        let again = run_isolated(scn, case, dec.clone(), true, false)?;
        if again["class"].as_str() != Some(class.as_str()) || again["trace_hash"] != r["trace_hash"] {
            return Err(format!(
                "original {}/{} but replay {}/{}",
                class, r["trace_hash"], again["class"], again["trace_hash"]
            ));
        }
    }
    // 2. minimise the case (each candidate in a fresh process; schedule re-derived from the
    //    case's own sched seed, a few alternative seeds are tried per candidate)
    let budget: usize = std::env::var("VERIF_SHRINK_TRIES").ok().and_then(|s| s.parse().ok()).unwrap_or(300);
    let mut best_r = r.clone();
    let (small, tries) = shrink_case(
        case,
        |cand| {
            for k in 0..3u64 {
                let mut c = cand.clone();
                if k > 0 {
                    let s0 = c["sched"]["seed"].as_u64().unwrap_or(1);
                    c["sched"]["seed"] = json!(splitmix(s0, k) >> 12);
                }
                match run_isolated(scn, &c, vec![], true, false) {
                    Ok(res) if res["invalid"] != json!(true) && res["class"].as_str() == Some(class.as_str()) => {
                        best_r = res;
                        best_r["case_used"] = c;
                        return true;
                    }
                    _ => {}
                }
            }
            false
        },
        budget,
    );
    let final_case = if best_r.get("case_used").is_some() { best_r["case_used"].clone() } else { small.clone() };
    let final_case = if tries == 0 || best_r.get("case_used").is_none() { case.clone() } else { final_case };
    // 3. shrink the decision list from the tail (replace by "choice 0" = drop)
    let mut dec = decisions_of(&best_r["decisions"]);
    let mut final_r = best_r.clone();
    let mut cut = dec.len() / 2;
    let mut dec_tries = 0;
    while cut >= 1 && dec_tries < 40 {
        if dec.len() > cut {
            let cand: Vec<u32> = dec[..dec.len() - cut].to_vec();
            dec_tries += 1;
            // the remainder of the schedule falls back to the seeded policy
            if let Ok(res) = run_isolated(scn, &final_case, cand.clone(), true, false) {
                if res["class"].as_str() == Some(class.as_str()) {
                    dec = cand;
                    final_r = res;
                    final_r["decisions"] = json!(dec);
                    continue;
                }
            }
        }
        cut /= 2;
    }
    // make the file self-contained: explicit decisions of the final run
    let full = run_isolated(scn, &final_case, decisions_of(&final_r["decisions"]), true, false)?;
    if full["class"].as_str() != Some(class.as_str()) {
        return Err("minimised case does not reproduce".into());
    }
    let v = replay_value(check, scn, idx, &final_case, &full);
    let path = write_replay(&root, &format!("{}-L1-{seed}.json", check.property), &v);
    // 4. the written file must reproduce in a fresh process
    let again = run_isolated(scn, &final_case, decisions_of(&full["decisions"]), true, false)?;
    if again["class"] != full["class"] || again["trace_hash"] != full["trace_hash"] {
        return Err("replay of the minimised file diverged".into());
    }
    println!("l1: violation class={} scenario={} — {}", class, scn.name(), full["message"].as_str().unwrap_or(""));
    println!(
        "l1: minimised in {} case edits + {} schedule cuts: decisions {} -> {}",
        tries,
        dec_tries,
        r["decisions"].as_array().map(|a| a.len()).unwrap_or(0),
        full["decisions"].as_array().map(|a| a.len()).unwrap_or(0)
    );
    Ok((
        path.clone(),
        json!({"class": class, "scenario": scn.name(), "message": full["message"], "replay": path.display().to_string(), "shrink_tries": tries}),
    ))
}

/// `l1 replay <file>`
pub fn replay(checks: &[Check], path: &str, log: bool) -> i32 {
    let Ok(text) = std::fs::read_to_string(path) else {
        eprintln!("l1: cannot read {path}");
        return 2;
    };
    let Ok(v) = serde_json::from_str::<Value>(&text) else {
        eprintln!("l1: {path} is not JSON");
        return 2;
    };
    let prop = v["property"].as_str().unwrap_or("");
    let Some(check) = checks.iter().find(|c| c.property == prop) else {
        eprintln!("l1: unknown property {prop}");
        return 2;
    };
    if v["class"] == json!("crash") {
        // re-run the worker's slice in this process: the crash kills it again (that is the reproduction)
        let c = &v["crash"];
        let tier = Tier::parse(c["tier"].as_str().unwrap_or("quick")).unwrap_or(Tier::Quick);
        println!("replay of {path}: re-running worker {} of {} (seed {}); a crash of this process reproduces the violation", c["worker"], c["workers"], c["seed"]);
        println!("VIOLATION property={prop} replay={path}");
        use std::io::Write;
        std::io::stdout().flush().ok();
        let _ = worker_main(check, tier, c["seed"].as_u64().unwrap_or(0), c["worker"].as_u64().unwrap_or(0), c["workers"].as_u64().unwrap_or(16), &[]);
        println!("replay of {path}: the slice completed without a crash this time");
        return 0;
    }
    let Some(scn) = check.scenario(v["scenario"].as_str().unwrap_or("")) else {
        eprintln!("l1: unknown scenario");
        return 2;
    };
    match run_isolated(scn, &v["case"], decisions_of(&v["decisions"]), false, log) {
        Err(e) => {
            eprintln!("l1: replay failed: {e}");
            2
        }
        Ok(r) => {
            if let Some(l) = r.get("log").and_then(|l| l.as_array()) {
                for line in l {
                    println!("  {}", line.as_str().unwrap_or(""));
                }
            }
            if class_is_some(&r) {
                let same_trace = r["trace_hash"] == v["trace_hash"];
                println!(
                    "replay of {path}: {} — {} (trace {})",
                    r["class"].as_str().unwrap_or(""),
                    r["message"].as_str().unwrap_or(""),
                    if same_trace { "identical to the recorded one" } else { "differs from the recorded one" }
                );
                println!("VIOLATION property={prop} replay={path}");
                1
            } else {
                println!("replay of {path}: no violation (property held on this execution)");
                0
            }
        }
    }
}

/// `l1 determinism <Cxx>`: runs a sample of cases twice with different worker counts and diffs.
pub fn determinism(check: &Check, seed: u64, n: u64) -> i32 {
    let mut pass: Vec<BTreeMap<u64, (u64, Value, u64)>> = vec![];
    for workers in [16usize, 3] {
        let mut pool = Pool::new(workers);
        let mut next = 0u64;
        let mut out = BTreeMap::new();
        let mut inflight: BTreeMap<u64, Value> = BTreeMap::new();
        loop {
            while pool.busy() < pool.max && next < n {
                let (scn, case) = check.case_for(seed, next, Tier::Quick);
                pool.spawn(next, Job::Run { scn, case: &case, replay: vec![], want_decisions: false, log: false });
                inflight.insert(next, case);
                next += 1;
            }
            if pool.busy() == 0 {
                break;
            }
            for (key, res) in pool.wait_any() {
                inflight.remove(&key);
                match res {
                    Ok(r) => {
                        out.insert(key, (r["trace_hash"].as_u64().unwrap_or(0), r["class"].clone(), r["steps"].as_u64().unwrap_or(0)));
                    }
                    Err(e) => {
                        eprintln!("l1: HARNESS ERROR: case {key}: {e}");
                        return 2;
                    }
                }
            }
        }
        pass.push(out);
    }
    let mut diff = 0;
    for (k, a) in &pass[0] {
        if pass[1].get(k) != Some(a) {
            diff += 1;
            if diff <= 5 {
                eprintln!("l1: NONDETERMINISM case {k}: {:?} vs {:?}", a, pass[1].get(k));
            }
        }
    }
    let distinct: HashSet<u64> = pass[0].values().map(|x| x.0).collect();
    println!("l1: determinism {}: {} cases x 2 passes (16 and 3 workers), {} distinct traces, {} differences", check.property, n, distinct.len(), diff);
    if diff == 0 { 0 } else { 2 }
}
