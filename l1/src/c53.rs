//! C53 — reported row-count metrics equal the rows actually produced.
//! A transparent `TapExec` is interposed above every node of the optimized physical plan; it counts
//! the rows each partition stream forwards and whether the stream was read to its end. After a
//! fully consumed, fault-free run: for every node whose streams were all read to the end,
//! `metrics().output_rows()` (summed over partitions) must equal the tapped row count.

use crate::envutil::EnvSpec;
use crate::queries::{self, Family};
use crate::runner::{Check, Outcome, RunFuture, Scenario, violation};
use crate::sim;
use crate::sqlsim::{self, Consume};
use arrow::datatypes::SchemaRef;
use arrow::record_batch::RecordBatch;
use datafusion_common::Result;
use datafusion_common::tree_node::TreeNodeRecursion;
use datafusion_execution::{RecordBatchStream, SendableRecordBatchStream, TaskContext};
use datafusion_physical_expr::PhysicalExpr;
use datafusion_physical_plan::execution_plan::ReplaceChildrenOptions;
use datafusion_physical_plan::{DisplayAs, DisplayFormatType, ExecutionPlan, PlanProperties};
use dst_common::Tier;
use dst_common::rng::Rng;
use futures::{Stream, StreamExt};
use serde_json::{Value, json};
use std::fmt;
use std::pin::Pin;
use std::sync::Arc;
use std::sync::atomic::{AtomicU64, Ordering};
use std::task::{Context, Poll};

#[derive(Debug, Default)]
pub struct TapCounts {
    pub rows: AtomicU64,
    pub opened: AtomicU64,
    pub ended: AtomicU64,
    /// first place where the node's output left the ordering the node declares (sort-family nodes only)
    pub order_violation: parking_lot::Mutex<Option<String>>,
    pub order_checked_rows: AtomicU64,
}

/// Checks one partition stream of a node against the output ordering that node declares.
pub struct OrderChecker {
    exprs: Vec<Arc<dyn PhysicalExpr>>,
    converter: arrow::row::RowConverter,
    last: Option<arrow::row::OwnedRow>,
}

impl OrderChecker {
    pub fn for_node(node: &Arc<dyn ExecutionPlan>) -> Option<OrderChecker> {
        // the operators whose job is to establish an order (C08); what other nodes declare is C28's subject
        if !["SortExec", "SortPreservingMergeExec", "PartialSortExec", "PartitionedTopKExec"].iter().any(|n| node.name().starts_with(n)) {
            return None;
        }
        if std::env::var_os("VERIF_DEBUG_PLAN").is_some() {
            eprintln!("order checker for {}: declares {:?}", node.name(), node.properties().output_ordering().map(|o| o.to_string()));
        }
        let ordering = node.properties().output_ordering()?;
        let schema = node.schema();
        let mut exprs = vec![];
        let mut fields = vec![];
        for e in ordering.iter() {
            let dt = e.expr.data_type(&schema).ok()?;
            fields.push(arrow::row::SortField::new_with_options(dt, e.options));
            exprs.push(Arc::clone(&e.expr));
        }
        let converter = arrow::row::RowConverter::new(fields).ok()?;
        Some(OrderChecker { exprs, converter, last: None })
    }
    /// `Some(message)` if the batch (continuing the previous ones) is out of order.
    pub fn check(&mut self, batch: &RecordBatch) -> Option<String> {
        if batch.num_rows() == 0 {
            return None;
        }
        let cols: Vec<arrow::array::ArrayRef> = self.exprs.iter().map(|e| e.evaluate(batch).and_then(|v| v.into_array(batch.num_rows()))).collect::<Result<_>>().ok()?;
        let rows = self.converter.convert_columns(&cols).ok()?;
        let show = |i: usize| -> String {
            cols.iter().map(|c| arrow::util::display::array_value_to_string(c, i).unwrap_or_default()).collect::<Vec<_>>().join(", ")
        };
        if let Some(prev) = &self.last {
            if prev.row() > rows.row(0) {
                return Some(format!("a batch starts with ({}) after the previous batch ended with a larger key", show(0)));
            }
        }
        for i in 1..rows.num_rows() {
            if rows.row(i - 1) > rows.row(i) {
                return Some(format!("({}) is followed by ({})", show(i - 1), show(i)));
            }
        }
        self.last = Some(rows.row(rows.num_rows() - 1).owned());
        None
    }
}

#[derive(Debug)]
pub struct TapExec {
    input: Arc<dyn ExecutionPlan>,
    pub counts: Arc<TapCounts>,
}

impl TapExec {
    pub fn new(input: Arc<dyn ExecutionPlan>) -> Self {
        TapExec { input, counts: Arc::new(TapCounts::default()) }
    }
    pub fn input(&self) -> &Arc<dyn ExecutionPlan> {
        &self.input
    }
}

impl DisplayAs for TapExec {
    fn fmt_as(&self, _t: DisplayFormatType, f: &mut fmt::Formatter) -> fmt::Result {
        write!(f, "TapExec")
    }
}

impl ExecutionPlan for TapExec {
    fn name(&self) -> &str {
        "TapExec"
    }
    fn properties(&self) -> &Arc<PlanProperties> {
        self.input.properties()
    }
    fn children(&self) -> Vec<&Arc<dyn ExecutionPlan>> {
        vec![&self.input]
    }
    fn maintains_input_order(&self) -> Vec<bool> {
        vec![true]
    }
    fn benefits_from_input_partitioning(&self) -> Vec<bool> {
        vec![false]
    }
    fn replace_children(self: Arc<Self>, mut children: Vec<Arc<dyn ExecutionPlan>>, _o: ReplaceChildrenOptions) -> Result<Arc<dyn ExecutionPlan>> {
        Ok(Arc::new(TapExec { input: children.remove(0), counts: Arc::clone(&self.counts) }))
    }
    fn apply_expressions(&self, _f: &mut dyn FnMut(&Arc<dyn PhysicalExpr>) -> Result<TreeNodeRecursion>) -> Result<TreeNodeRecursion> {
        Ok(TreeNodeRecursion::Continue)
    }
    #[allow(deprecated)]
    fn with_new_children(self: Arc<Self>, mut children: Vec<Arc<dyn ExecutionPlan>>) -> Result<Arc<dyn ExecutionPlan>> {
        Ok(Arc::new(TapExec { input: children.remove(0), counts: Arc::clone(&self.counts) }))
    }
    fn execute(&self, partition: usize, context: Arc<TaskContext>) -> Result<SendableRecordBatchStream> {
        let inner = self.input.execute(partition, context)?;
        self.counts.opened.fetch_add(1, Ordering::Relaxed);
        let order = OrderChecker::for_node(&self.input);
        Ok(Box::pin(TapStream { schema: inner.schema(), inner, counts: Arc::clone(&self.counts), ended: false, order, partition }))
    }
}

struct TapStream {
    schema: SchemaRef,
    inner: SendableRecordBatchStream,
    counts: Arc<TapCounts>,
    ended: bool,
    order: Option<OrderChecker>,
    partition: usize,
}
impl Stream for TapStream {
    type Item = Result<RecordBatch>;
    fn poll_next(mut self: Pin<&mut Self>, cx: &mut Context<'_>) -> Poll<Option<Self::Item>> {
        let r = self.inner.poll_next_unpin(cx);
        match &r {
            Poll::Ready(Some(Ok(b))) => {
                self.counts.rows.fetch_add(b.num_rows() as u64, Ordering::Relaxed);
                let part = self.partition;
                let counts = Arc::clone(&self.counts);
                let this = &mut *self;
                if let Some(oc) = this.order.as_mut() {
                    counts.order_checked_rows.fetch_add(b.num_rows() as u64, Ordering::Relaxed);
                    if let Some(msg) = oc.check(b) {
                        let mut g = counts.order_violation.lock();
                        if g.is_none() {
                            *g = Some(format!("partition {part}: {msg}"));
                        }
                    }
                }
            }
            Poll::Ready(None) if !self.ended => {
                self.ended = true;
                self.counts.ended.fetch_add(1, Ordering::Relaxed);
            }
            _ => {}
        }
        r
    }
}
impl RecordBatchStream for TapStream {
    fn schema(&self) -> SchemaRef {
        Arc::clone(&self.schema)
    }
}

/// Rebuilds the plan bottom-up with a TapExec above every node; returns the new root (a tap).
fn tap_all(plan: &Arc<dyn ExecutionPlan>, taps: &mut Vec<Arc<TapExec>>) -> Result<Arc<dyn ExecutionPlan>> {
    let new_children: Vec<Arc<dyn ExecutionPlan>> = plan.children().iter().map(|c| tap_all(c, taps)).collect::<Result<_>>()?;
    let node = if new_children.is_empty() {
        Arc::clone(plan)
    } else {
        #[allow(deprecated)]
        Arc::clone(plan).with_new_children(new_children)?
    };
    let tap = Arc::new(TapExec::new(node));
    taps.push(Arc::clone(&tap));
    Ok(tap)
}

pub struct Metrics {
    /// C08 mode: sort-family queries; the oracle is that every sort-family node's output is in the order
    /// the node declares (its counters are C53's business)
    pub declared_order: bool,
}

impl Scenario for Metrics {
    fn name(&self) -> &'static str {
        if self.declared_order { "c08-declared-order" } else { "c53-metrics" }
    }
    fn generate(&self, rng: &mut Rng, tier: Tier) -> Value {
        let big = tier == Tier::Thorough;
        let tg = crate::data::TableGen { parts: (1, 4), batches: (0, if big { 6 } else { 4 }), rows: (0, if big { 16 } else { 8 }), key_domain: *rng.pick(&[2i64, 4, 12]), ..Default::default() };
        let q = queries::generate(rng, if self.declared_order { Family::Sort } else { Family::Any });
        let pressure = rng.chance(1, 2);
        json!({
            "tables": {"a": {"parts": tg.generate(rng), "sorted": false}, "b": {"parts": tg.generate(rng), "sorted": false}},
            "query": q,
            "knobs": sqlsim::generate_cfg(rng),
            "env": EnvSpec::generate(rng, pressure),
            "consume": *rng.pick(&["stream", "partitions"]),
        })
    }
    fn run(&self, case: Value) -> RunFuture {
        let declared_order = self.declared_order;
        Box::pin(async move {
            let Some(tables) = sqlsim::parse_tables(&case["tables"]) else { return Outcome::Invalid };
            let Some(env) = EnvSpec::parse(&case["env"]) else { return Outcome::Invalid };
            let Some(sql) = queries::sql(&case["query"]) else { return Outcome::Invalid };
            let Some(sess) = sqlsim::build_session(&env, &case["knobs"], &tables) else { return Outcome::Invalid };
            let df = match sess.ctx.sql(&sql).await {
                Ok(d) => d,
                Err(e) => return violation("template-error", format!("`{sql}`: {e}")),
            };
            let plan = match df.create_physical_plan().await {
                Ok(p) => p,
                Err(e) => return violation("template-error", format!("`{sql}`: {e}")),
            };
            let mut taps = vec![];
            let tapped = match tap_all(&plan, &mut taps) {
                Ok(p) => p,
                Err(e) => return violation("harness", format!("cannot interpose taps: {e}")),
            };
            let task = sess.ctx.task_ctx();
            let total_rows: u64;
            let exec = async {
            let result: Result<u64> = if case["consume"].as_str() == Some("partitions") {
                let n = tapped.properties().partitioning.partition_count();
                let res = crate::envutil::consume_partitions(&tapped, &task, &vec![None; n]).await;
                let mut rows = 0u64;
                let mut err = None;
                for r in res {
                    match r {
                        Ok(b) => rows += b.iter().map(|x| x.num_rows() as u64).sum::<u64>(),
                        Err(e) => err = Some(e),
                    }
                }
                match err {
                    Some(e) => Err(e),
                    None => Ok(rows),
                }
            } else {
                match datafusion_physical_plan::execute_stream(Arc::clone(&tapped), task) {
                    Err(e) => Err(e),
                    Ok(mut s) => {
                        let mut rows = 0u64;
                        let mut err = None;
                        while let Some(b) = s.next().await {
                            match b {
                                Ok(b) => rows += b.num_rows() as u64,
                                Err(e) => {
                                    err = Some(e);
                                    break;
                                }
                            }
                        }
                        match err {
                            Some(e) => Err(e),
                            None => Ok(rows),
                        }
                    }
                }
            };
            result
            };
            // a panic or an error is not a statement about metrics: they are C18's / C20's / C02's subject
            // (the same generator runs there); this check only compares counters of runs that completed
            let result = match futures::FutureExt::catch_unwind(std::panic::AssertUnwindSafe(exec)).await {
                Ok(r) => r,
                Err(_) => {
                    sim::probe("probe.run_panicked_not_checked");
                    return Outcome::Pass;
                }
            };
            match result {
                Err(e) => {
                    if matches!(e.find_root(), datafusion_common::DataFusionError::NotImplemented(_)) && case["query"].get("kt").is_some() {
                        sim::probe("probe.type_variant_not_implemented");
                        return Outcome::Pass;
                    }
                    if crate::envutil::is_resources_exhausted(&e) && env.pool_kind != "unbounded" {
                        sim::probe("probe.resources_exhausted_run");
                        return Outcome::Pass;
                    }
                    return violation("unexpected-error", format!("`{sql}`: {}", sqlsim::error_text(&e)));
                }
                Ok(n) => total_rows = n,
            }
            let _ = Consume::Stream;
            tokio::time::sleep(std::time::Duration::from_secs(600)).await;
            if declared_order {
                let mut rows = 0u64;
                for tap in &taps {
                    rows += tap.counts.order_checked_rows.load(Ordering::Relaxed);
                    if let Some(msg) = tap.counts.order_violation.lock().clone() {
                        let node = tap.input();
                        return violation(
                            "declared-order-violated",
                            format!("`{sql}`: the output of {} is not in the order it declares ({}): {msg}", node.name(), datafusion_physical_plan::displayable(node.as_ref()).one_line()),
                        );
                    }
                }
                sim::probe_n("probe.rows_checked_against_declared_order", rows);
                return Outcome::Pass;
            }
            // compare every fully consumed node's metric with what its tap saw
            let mut checked = 0u64;
            for tap in &taps {
                let c = &tap.counts;
                let opened = c.opened.load(Ordering::Relaxed);
                if opened == 0 || c.ended.load(Ordering::Relaxed) != opened {
                    sim::probe("probe.node_not_fully_consumed");
                    continue;
                }
                let node = tap.input();
                let Some(m) = node.metrics() else { continue };
                let Some(reported) = m.output_rows() else { continue };
                let seen = c.rows.load(Ordering::Relaxed) as usize;
                checked += 1;
                if reported != seen {
                    return violation(
                        "output-rows-mismatch",
                        format!("`{sql}`: {} reports output_rows={reported} but emitted {seen} rows over {opened} partitions ({})", node.name(), datafusion_physical_plan::displayable(node.as_ref()).one_line()),
                    );
                }
            }
            sim::probe_n("probe.nodes_checked", checked);
            // spill metrics: every byte that reached the (simulated) spill disk was written through some
            // operator's SpillManager, which counts it in that operator's `spilled_bytes`
            {
                use std::sync::atomic::Ordering::Relaxed;
                fn sum_spill(p: &Arc<dyn ExecutionPlan>, bytes: &mut usize, rows: &mut usize, files: &mut usize) {
                    if let Some(m) = p.metrics().filter(|_| p.name() != "TapExec") {
                        *bytes += m.spilled_bytes().unwrap_or(0);
                        *rows += m.spilled_rows().unwrap_or(0);
                        *files += m.spill_count().unwrap_or(0);
                    }
                    for c in p.children() {
                        sum_spill(c, bytes, rows, files);
                    }
                }
                let (mut mb, mut mr, mut mf) = (0usize, 0usize, 0usize);
                sum_spill(&tapped, &mut mb, &mut mr, &mut mf);
                let disk_bytes = sess.env.disk.stats.bytes_written.load(Relaxed) as usize;
                let disk_files = sess.env.disk.stats.files_created.load(Relaxed) as usize;
                if disk_bytes > 0 {
                    sim::probe("probe.runs_with_spilling");
                }
                if std::env::var_os("VERIF_DEBUG_PLAN").is_some() {
                    eprintln!("{}", datafusion_physical_plan::display::DisplayableExecutionPlan::with_metrics(tapped.as_ref()).indent(true));
                }
                // (a recursive CTE re-executes its recursive term with fresh metrics per iteration: totals
                // over the whole statement are not defined for it)
                if mb != disk_bytes && !sql.contains("RECURSIVE") {
                    return violation(
                        "spilled-bytes-mismatch",
                        format!("`{sql}`: the plan's operators report spilled_bytes={mb} in total, the spill disk received {disk_bytes} bytes in {disk_files} files (spilled_rows={mr}, spill_count={mf})"),
                    );
                }
                if (mr > 0) != (disk_bytes > 0) && mb > 0 {
                    return violation("spilled-rows-mismatch", format!("`{sql}`: spilled_rows={mr} but {disk_bytes} bytes were spilled"));
                }
            }
            sim::probe_n("probe.result_rows", total_rows);
            Outcome::Pass
        })
    }
}

pub fn check() -> Check {
    Check {
        property: "C53",
        level: "exploration",
        scenarios: vec![Box::new(Metrics { declared_order: false })],
        cases_quick: 12_000,
        cases_thorough: 300_000,
        rule: "runs: one generated SQL query (whole template corpus) over generated tables in 1-4 scripted partitions under a random configuration (partition counts, repartitioning switches, join preferences, a third under a bounded pool so that spilling paths run) and a seeded schedule; a counting TapExec sits above every node of the optimized plan; after the query was consumed completely, every node all of whose partition streams reached end-of-stream must report output_rows equal to the rows its tap forwarded, and the operators' spilled_bytes must add up to the bytes the spill disk received. distinct = distinct traces",
        assumptions: vec!["TapExec forwards its child's plan properties unchanged and is inserted after physical optimization", "nodes without an output_rows metric are skipped; spill metrics are checked in bytes (the sum of the operators' spilled_bytes equals the bytes the simulated spill disk received), not in rows"],
        components: json!({
            "real": ["all operators' BaselineMetrics / MetricsSet aggregation", "the whole planner and operator set as for C02"],
            "stub": ["TapExec (harness), simulated sources, memory neighbour, SimDisk"],
        }),
    }
}
