//! C20's storage-read slice: listing-table scans (CSV, NDJSON, Parquet) over the simulated object
//! store in which one GET fails — before its body, or after the first chunk of its body ("connection
//! reset") — while the scan's partitions, the operators above it and the store's latencies are
//! interleaved by the seeded scheduler. Oracle: the query fails, or it returns the complete result
//! (the one a fault-free store gives); it never ends successfully with rows missing, never hangs
//! (watchdog) and never panics.

use crate::envutil::EnvSpec;
use crate::objstore::{SimObjectStore, StoreSpec};
use crate::runner::{Outcome, RunFuture, Scenario, violation};
use crate::sim;
use crate::sqlsim::{self, Consume};
use arrow::array::{Int64Array, RecordBatch, StringArray};
use arrow::datatypes::{DataType, Field, Schema};
use datafusion::execution::config::SessionConfig;
use datafusion::prelude::SessionContext;
use dst_common::Tier;
use dst_common::rng::Rng;
use futures::FutureExt;
use object_store::path::Path;
use object_store::{ObjectStoreExt, PutPayload};
use serde_json::{Value, json};
use std::panic::AssertUnwindSafe;
use std::sync::Arc;
use std::sync::atomic::Ordering;

pub struct ScanFaults;

const QUERIES: &[(&str, bool)] = &[
    ("SELECT id, s FROM t", false),
    ("SELECT count(*), sum(id), min(s) FROM t", false),
    ("SELECT id, s FROM t ORDER BY id", true),
    ("SELECT s, count(*), sum(id) FROM t GROUP BY s", false),
    ("SELECT x.id, y.s FROM t x JOIN t y ON x.id = y.id", false),
    ("SELECT id FROM t WHERE id % 2 = 0 UNION ALL SELECT id FROM t WHERE id % 2 = 1", false),
    ("SELECT id, s FROM t ORDER BY id DESC LIMIT 3", true),
];

impl Scenario for ScanFaults {
    fn name(&self) -> &'static str {
        "c20-scan"
    }
    fn generate(&self, rng: &mut Rng, _tier: Tier) -> Value {
        let format = *rng.pick(&["csv", "json", "parquet"]);
        let nfiles = rng.range(1, 3);
        let mut id = 0u64;
        let files: Vec<Value> = (0..nfiles)
            .map(|_| {
                let n = rng.range(0, 14);
                json!((0..n)
                    .map(|_| {
                        id += 1;
                        let s = if rng.chance(1, 6) { Value::Null } else { json!(format!("s{}", rng.below(4))) };
                        json!([id, s])
                    })
                    .collect::<Vec<_>>())
            })
            .collect();
        json!({
            "format": format,
            "files": files,
            "query": rng.below(QUERIES.len() as u64),
            "target_partitions": rng.range(1, 6),
            "min_size": *rng.pick(&[1u64, 1, 10, 1000]),
            "consume": *rng.pick(&["stream", "partitions"]),
            "row_group": *rng.pick(&[1u64, 3, 1000]),
            "store": {
                "chunk": *rng.pick(&[1u64, 3, 7, 16, 64, 0]),
                "pending_every": *rng.pick(&[0u64, 0, 1, 3]),
                "latency_ms": *rng.pick(&[0u64, 0, 5]),
                "fail_get": {"nth": rng.below(12), "mid": rng.chance(1, 2)},
            },
            "env": EnvSpec::generate(rng, false),
        })
    }
    fn run(&self, case: Value) -> RunFuture {
        Box::pin(async move { run(case).await })
    }
}

fn file_bytes(format: &str, rows: &[(i64, Option<String>)], row_group: usize) -> Option<Vec<u8>> {
    match format {
        "csv" => Some(rows.iter().map(|(i, s)| format!("{i},{}\n", s.clone().unwrap_or_default())).collect::<String>().into_bytes()),
        "json" => Some(
            rows.iter()
                .map(|(i, s)| match s {
                    Some(s) => format!("{{\"id\":{i},\"s\":\"{s}\"}}\n"),
                    None => format!("{{\"id\":{i}}}\n"),
                })
                .collect::<String>()
                .into_bytes(),
        ),
        _ => {
            let schema = Arc::new(Schema::new(vec![Field::new("id", DataType::Int64, true), Field::new("s", DataType::Utf8, true)]));
            let batch = RecordBatch::try_new(
                schema.clone(),
                vec![Arc::new(Int64Array::from(rows.iter().map(|r| r.0).collect::<Vec<_>>())), Arc::new(StringArray::from(rows.iter().map(|r| r.1.clone()).collect::<Vec<_>>()))],
            )
            .ok()?;
            let props = datafusion::parquet::file::properties::WriterProperties::builder().set_max_row_group_size(row_group.max(1)).build();
            let mut buf = vec![];
            let mut w = datafusion::parquet::arrow::ArrowWriter::try_new(&mut buf, schema, Some(props)).ok()?;
            w.write(&batch).ok()?;
            w.close().ok()?;
            Some(buf)
        }
    }
}

async fn run(case: Value) -> Outcome {
    let Some(spec) = StoreSpec::parse(&case["store"]) else { return Outcome::Invalid };
    let Some(env) = EnvSpec::parse(&case["env"]) else { return Outcome::Invalid };
    let format = case["format"].as_str().unwrap_or("csv").to_string();
    if !["csv", "json", "parquet"].contains(&format.as_str()) {
        return Outcome::Invalid;
    }
    let Some(files) = case["files"].as_array() else { return Outcome::Invalid };
    if files.is_empty() || files.len() > 6 {
        return Outcome::Invalid;
    }
    let Some(&(sql, ordered)) = QUERIES.get(case["query"].as_u64().unwrap_or(0) as usize) else { return Outcome::Invalid };
    let row_group = case["row_group"].as_u64().unwrap_or(1000) as usize;
    let faulty = SimObjectStore::new(spec);
    let clean = SimObjectStore::new(StoreSpec::default());
    for (i, f) in files.iter().enumerate() {
        let mut rows = vec![];
        for r in f.as_array().cloned().unwrap_or_default() {
            let Some(id) = r[0].as_i64() else { return Outcome::Invalid };
            let s = r[1].as_str().map(|x| x.to_string());
            if s.as_deref().is_some_and(|x| x.is_empty() || !x.chars().all(|c| c.is_ascii_alphanumeric())) {
                return Outcome::Invalid;
            }
            rows.push((id, s));
        }
        if rows.len() > 64 {
            return Outcome::Invalid;
        }
        if rows.is_empty() && format == "parquet" {
            continue;
        }
        let Some(bytes) = file_bytes(&format, &rows, row_group) else { return Outcome::Invalid };
        let path = Path::from(format!("t/part-{i}.{format}"));
        for st in [&faulty, &clean] {
            if st.inner.put(&path, PutPayload::from(bytes.clone())).await.is_err() {
                return violation("harness", "put failed".into());
            }
        }
    }
    let stored = match format.as_str() {
        "csv" => "CSV",
        "json" => "JSON",
        _ => "PARQUET",
    };
    let opts = if format == "csv" { " OPTIONS ('format.has_header' 'false')" } else { "" };
    let ddl = format!("CREATE EXTERNAL TABLE t (id BIGINT, s VARCHAR) STORED AS {stored} LOCATION 'sim://bucket/t/'{opts}");
    let url = url::Url::parse("sim://bucket").unwrap();

    // the complete result: same files, fault-free store, plain configuration
    let base = SessionContext::new_with_config(SessionConfig::new().with_target_partitions(1));
    base.register_object_store(&url, clean.clone());
    if let Err(e) = base.sql(&ddl).await {
        return violation("template-error", format!("{ddl}: {e}"));
    }
    let expected = match sqlsim::execute_sql(&base, sql, Consume::Stream, None).await.result {
        Ok(r) => r,
        Err(e) => return violation("template-error", format!("fault-free run of `{sql}` failed: {}", sqlsim::error_text(&e))),
    };
    drop(base);

    let cx = env.build();
    let mut cfg = env.session_config().with_target_partitions(case["target_partitions"].as_u64().unwrap_or(2).clamp(1, 16) as usize);
    {
        let o = cfg.options_mut();
        let _ = o.set("datafusion.optimizer.repartition_file_scans", "true");
        let _ = o.set("datafusion.optimizer.repartition_file_min_size", &case["min_size"].as_u64().unwrap_or(1).to_string());
    }
    let ctx = SessionContext::new_with_config_rt(cfg, cx.runtime.clone());
    ctx.register_object_store(&url, faulty.clone());
    let consume = if case["consume"].as_str() == Some("partitions") { Consume::Partitions } else { Consume::Stream };
    // planning may already touch the store (Parquet footers): a failure there is the fault surfacing too
    let r = AssertUnwindSafe(async {
        if let Err(e) = ctx.sql(&ddl).await {
            return Err(e);
        }
        Ok(sqlsim::execute_sql(&ctx, sql, consume, None).await)
    })
    .catch_unwind()
    .await;
    let fired = faulty.stats.get_errors.load(Ordering::Relaxed) > 0;
    sim::probe_n("probe.get_requests", faulty.stats.gets.load(Ordering::Relaxed));
    match r {
        Err(p) => return violation("panic", format!("`{sql}` over {format} panicked: {}", crate::sqlcheck::panic_text(&p))),
        Ok(Err(e)) if fired => {
            let _ = e;
            sim::probe("probe.error_surfaced_while_planning");
        }
        Ok(Err(e)) => return violation("unexpected-error", format!("{ddl}: {e}")),
        Ok(Ok(ex)) => match ex.result {
            Err(_) if fired => sim::probe("probe.error_surfaced"),
            Err(e) => return violation("unexpected-error", format!("`{sql}` over {format} failed without a fault: {}", sqlsim::error_text(&e))),
            Ok(rows) => {
                if let Some(d) = sqlsim::compare(&rows, &expected, ordered) {
                    let class = if fired { "truncated-success" } else { "wrong-result" };
                    let (nth, mid) = faulty.spec.fail_get.unwrap_or((0, false));
                    return violation(
                        class,
                        format!("`{sql}` over {} {format} file(s): GET #{nth} failed {} yet the query succeeded with a different result: {d}", files.len(), if mid { "in the middle of its body" } else { "before its body" }),
                    );
                }
                if fired {
                    // e.g. the failed request belonged to a LIMIT query that no longer needed it
                    sim::probe("probe.complete_despite_fault");
                } else {
                    sim::probe("probe.fault_not_reached");
                }
            }
        },
    }
    sim::probe(&format!("probe.scan_format_{format}"));
    drop(ctx);
    tokio::time::sleep(std::time::Duration::from_secs(600)).await;
    if let Some(v) = cx.quiescence_violation_stats(&[]) {
        return v;
    }
    Outcome::Pass
}
