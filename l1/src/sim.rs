//! L1 simulator core: a seeded scheduler that decides which tokio task is polled next.
//!
//! Every future spawned by DataFusion goes through `datafusion_common_runtime::JoinSetTracer`
//! (an existing seam); `SimTracer` wraps it in a `SimTask`. tokio's current_thread runtime still
//! owns the run queue, but a `SimTask` that is not the *chosen* one re-wakes itself and returns
//! Pending without touching the inner future, so the order of real polls is decided here and only
//! here, from the run's seed (or from an explicit decision list when replaying).

use datafusion_common_runtime::JoinSetTracer;
use dst_common::Counters;
use dst_common::rng::{Rng, fnv1a};
use futures::FutureExt;
use futures::future::BoxFuture;
use std::any::Any;
use std::cell::RefCell;
use std::collections::{BTreeMap, BTreeSet};
use std::future::Future;
use std::pin::Pin;
use std::sync::Arc;
use std::task::{Context, Poll, Wake, Waker};

#[derive(Clone, Debug, PartialEq)]
pub enum Policy {
    /// uniform over the runnable set
    Random,
    /// keep polling the task that ran last with probability p/100
    Sticky(u64),
    /// PCT-style: random distinct priorities, d-1 priority change points
    Pct(u64),
    /// task `k` (by spawn order) only runs when nothing else can
    StarveOne(u64),
    RoundRobin,
    /// always the most recently spawned runnable task
    Newest,
    /// always the oldest runnable task
    Oldest,
}

impl Policy {
    pub fn from_case(v: &serde_json::Value) -> Policy {
        let k = v.get("k").and_then(|x| x.as_u64()).unwrap_or(0);
        match v.get("policy").and_then(|x| x.as_str()).unwrap_or("random") {
            "sticky" => Policy::Sticky(k.clamp(1, 99)),
            "pct" => Policy::Pct(k.clamp(1, 8)),
            "starve" => Policy::StarveOne(k),
            "rr" => Policy::RoundRobin,
            "newest" => Policy::Newest,
            "oldest" => Policy::Oldest,
            _ => Policy::Random,
        }
    }
    pub fn generate(rng: &mut Rng) -> serde_json::Value {
        let seed = rng.next() >> 12;
        match rng.below(10) {
            0 | 1 | 2 | 3 => serde_json::json!({"policy": "random", "k": 0, "seed": seed}),
            4 | 5 => serde_json::json!({"policy": "sticky", "k": *rng.pick(&[50u64, 80, 95]), "seed": seed}),
            6 => serde_json::json!({"policy": "pct", "k": rng.range(2, 5), "seed": seed}),
            7 => serde_json::json!({"policy": "starve", "k": rng.range(0, 6), "seed": seed}),
            8 => serde_json::json!({"policy": *rng.pick(&["newest", "oldest"]), "k": 0, "seed": seed}),
            _ => serde_json::json!({"policy": "rr", "k": 0, "seed": seed}),
        }
    }
}

pub struct Sim {
    policy: Policy,
    rng: Rng,
    replay: Vec<u32>,
    replay_pos: usize,
    next_id: usize,
    runnable: BTreeSet<usize>,
    chosen: Option<usize>,
    last: Option<usize>,
    pub decisions: Vec<u32>,
    pub trace_hash: u64,
    pub steps: u64,
    pub step_budget: u64,
    pub polls_deferred: u64,
    pub nontrivial_decisions: u64,
    pub max_runnable: usize,
    pub tasks_spawned: u64,
    pub live: BTreeSet<usize>,
    /// decision count at which each runnable task became runnable (for weak fairness)
    waiting_since: BTreeMap<usize, u64>,
    pct_prio: BTreeMap<usize, u64>,
    pct_next: u64,
    pct_changes: Vec<u64>,
    pub probes: Counters,
    pub tag: String,
    pub blocking_used: bool,
    /// set when the run must end at once with this (class, message); every later task poll aborts
    pub abort: Option<(String, String)>,
    pub log: Option<Vec<String>>,
    /// counter behind the random-id seam (write ids of output files)
    pub ids_issued: u64,
    /// messages of the panics raised during the run (first few), for classification
    pub panics: Vec<String>,
    /// what the query still held in the memory pool when its last output stream reached end-of-stream
    /// (all streams still alive); `None` if some output was abandoned early
    pub reserved_at_last_eof: Option<usize>,
}

thread_local! {
    static SIM: RefCell<Option<Sim>> = const { RefCell::new(None) };
}

pub fn install(policy: Policy, seed: u64, replay: Vec<u32>, step_budget: u64, log: bool) {
    let mut rng = Rng::new(seed);
    let mut pct_changes = vec![];
    if let Policy::Pct(d) = policy {
        for _ in 1..d {
            pct_changes.push(rng.below(400));
        }
    }
    let sim = Sim {
        policy,
        rng,
        replay,
        replay_pos: 0,
        next_id: 0,
        runnable: BTreeSet::new(),
        chosen: None,
        last: None,
        decisions: vec![],
        trace_hash: 0,
        steps: 0,
        step_budget,
        polls_deferred: 0,
        nontrivial_decisions: 0,
        max_runnable: 0,
        tasks_spawned: 0,
        live: BTreeSet::new(),
        waiting_since: BTreeMap::new(),
        pct_prio: BTreeMap::new(),
        pct_next: 1 << 32,
        pct_changes,
        probes: Counters::default(),
        tag: String::new(),
        blocking_used: false,
        abort: None,
        log: if log { Some(vec![]) } else { None },
        ids_issued: 0,
        panics: vec![],
        reserved_at_last_eof: None,
    };
    SIM.with(|s| *s.borrow_mut() = Some(sim));
}

pub fn with<R>(f: impl FnOnce(&mut Sim) -> R) -> R {
    SIM.with(|s| f(s.borrow_mut().as_mut().expect("simulator not installed")))
}
pub fn try_with<R>(f: impl FnOnce(&mut Sim) -> R) -> Option<R> {
    SIM.with(|s| s.try_borrow_mut().ok().and_then(|mut g| g.as_mut().map(f)))
}
pub fn take() -> Option<Sim> {
    SIM.with(|s| s.borrow_mut().take())
}

pub fn probe(k: &str) {
    try_with(|s| s.probes.add(k, 1));
}
pub fn probe_n(k: &str, n: u64) {
    try_with(|s| s.probes.add(k, n));
}
pub fn probe_max(k: &str, n: u64) {
    try_with(|s| s.probes.max(k, n));
}
/// Called from the panic hook: remembers the message of a panic raised during the current run.
pub fn note_panic(msg: String) {
    let _ = try_with(|s| {
        if s.panics.len() < 8 {
            s.panics.push(msg);
        }
    });
}
pub fn panic_notes() -> Vec<String> {
    try_with(|s| s.panics.clone()).unwrap_or_default()
}

pub fn set_tag(t: &str) {
    try_with(|s| {
        if !s.tag.split('+').any(|x| x == t) {
            if !s.tag.is_empty() {
                s.tag.push('+');
            }
            s.tag.push_str(t);
        }
    });
}
/// Folds a harness-level event (fault fired, batch emitted, ...) into the trace hash.
pub fn trace_event(kind: &str, a: u64) {
    try_with(|s| {
        if s.abort.is_some() {
            return;
        }
        s.trace_hash = fnv1a(fnv1a(s.trace_hash, kind.as_bytes()), &a.to_le_bytes());
        if let Some(l) = s.log.as_mut() {
            l.push(format!("{kind} {a}"));
        }
    });
}
/// Ends the run as soon as possible with the given violation class.
pub fn request_abort(class: &str, msg: String) {
    try_with(|s| {
        if s.abort.is_none() {
            s.abort = Some((class.to_string(), msg));
        }
    });
}
/// The random-id seam (datafusion_common::verif::set_random_id_hook): identifiers that the code
/// would draw from the OS random generator are numbered per run instead.
pub fn random_id_hook(_site: &'static str) -> Option<String> {
    try_with(|s| {
        s.ids_issued += 1;
        format!("sim{:013}", s.ids_issued)
    })
}
/// The iteration-order seam (datafusion_common::verif::set_order_hook): a seeded choice per call.
pub fn order_hook(_site: &'static str, n: usize) -> usize {
    try_with(|s| (s.rng.next() % n.max(1) as u64) as usize).unwrap_or(0)
}
pub fn steps() -> u64 {
    try_with(|s| s.steps).unwrap_or(0)
}
pub fn live_tasks() -> usize {
    with(|s| s.live.len())
}

impl Sim {
    fn note(&mut self, id: usize, what: &str) {
        if self.abort.is_some() {
            // the run is over; how it unwinds (in-process) or exits (forked) is not part of the trace
            return;
        }
        self.trace_hash = fnv1a(fnv1a(self.trace_hash, what.as_bytes()), &(id as u64).to_le_bytes());
        if let Some(l) = self.log.as_mut() {
            l.push(format!("{what} t{id}"));
        }
    }

    /// Picks the next task to poll from the (non-empty) runnable set.
    fn choose(&mut self) -> usize {
        let v: Vec<usize> = self.runnable.iter().copied().collect();
        let n = v.len();
        self.max_runnable = self.max_runnable.max(n);
        if n >= 2 {
            self.nontrivial_decisions += 1;
        }
        // Weak fairness: every policy may delay a runnable task for at most FAIR_BOUND decisions.
        // tokio's scheduler is FIFO-fair, so schedules that starve a runnable task forever are not
        // executions of the real system (and would turn liveness oracles into false alarms).
        const FAIR_BOUND: u64 = 400;
        let now = self.decisions.len() as u64;
        self.waiting_since.retain(|t, _| v.contains(t));
        for t in &v {
            self.waiting_since.entry(*t).or_insert(now);
        }
        let overdue = v
            .iter()
            .enumerate()
            .filter(|(_, t)| now - self.waiting_since[*t] > FAIR_BOUND)
            .min_by_key(|(_, t)| self.waiting_since[*t])
            .map(|(i, _)| i);
        let idx: usize = if self.replay_pos < self.replay.len() {
            let d = self.replay[self.replay_pos] as usize;
            self.replay_pos += 1;
            d.min(n - 1)
        } else if n == 1 {
            0
        } else if let Some(i) = overdue {
            i
        } else {
            match self.policy.clone() {
                Policy::Random => self.rng.below(n as u64) as usize,
                Policy::Sticky(p) => match self.last.and_then(|l| v.iter().position(|x| *x == l)) {
                    Some(i) if self.rng.below(100) < p => i,
                    _ => self.rng.below(n as u64) as usize,
                },
                Policy::Pct(_) => {
                    for t in &v {
                        if !self.pct_prio.contains_key(t) {
                            let p = self.rng.below(1 << 31);
                            self.pct_prio.insert(*t, p);
                        }
                    }
                    if self.pct_changes.contains(&self.steps) {
                        if let Some(l) = self.last {
                            self.pct_next += 1;
                            let p = self.pct_next;
                            self.pct_prio.insert(l, p);
                        }
                    }
                    let mut best = 0;
                    for (i, t) in v.iter().enumerate() {
                        if self.pct_prio[t] < self.pct_prio[&v[best]] {
                            best = i;
                        }
                    }
                    best
                }
                Policy::StarveOne(k) => {
                    let cands: Vec<usize> = (0..n).filter(|i| v[*i] as u64 != k).collect();
                    if cands.is_empty() { 0 } else { cands[self.rng.below(cands.len() as u64) as usize] }
                }
                Policy::RoundRobin => {
                    let l = self.last.unwrap_or(usize::MAX);
                    v.iter().position(|x| l != usize::MAX && *x > l).unwrap_or(0)
                }
                Policy::Newest => n - 1,
                Policy::Oldest => 0,
            }
        };
        self.decisions.push(idx as u32);
        self.waiting_since.remove(&v[idx]);
        v[idx]
    }
}

struct TrackWaker {
    id: usize,
    inner: Waker,
}
impl Wake for TrackWaker {
    fn wake(self: Arc<Self>) {
        self.wake_by_ref()
    }
    fn wake_by_ref(self: &Arc<Self>) {
        try_with(|s| {
            if s.live.contains(&self.id) {
                s.runnable.insert(self.id);
            }
        });
        self.inner.wake_by_ref();
    }
}

pub struct SimTask<F> {
    id: usize,
    fut: Pin<Box<F>>,
}

impl<F: Future> Future for SimTask<F> {
    type Output = F::Output;
    fn poll(mut self: Pin<&mut Self>, cx: &mut Context<'_>) -> Poll<F::Output> {
        let id = self.id;
        let go = with(|s| {
            s.runnable.insert(id);
            if s.chosen.is_none() {
                let c = s.choose();
                s.chosen = Some(c);
            }
            if s.chosen == Some(id) {
                s.runnable.remove(&id);
                s.steps += 1;
                if s.steps > s.step_budget && s.abort.is_none() {
                    s.abort = Some(("livelock".into(), "step budget exceeded: the run neither finished nor went idle".into()));
                }
                s.note(id, "poll");
                true
            } else {
                s.polls_deferred += 1;
                false
            }
        });
        if let Some((c, m)) = with(|s| s.abort.clone()) {
            // release the scheduler so that the remaining tasks (and the root) get here too
            with(|s| s.chosen = None);
            crate::runner::abort_run(&c, &m);
        }
        if !go {
            cx.waker().wake_by_ref();
            return Poll::Pending;
        }
        let w = Waker::from(Arc::new(TrackWaker { id, inner: cx.waker().clone() }));
        let mut cx2 = Context::from_waker(&w);
        let r = self.fut.as_mut().poll(&mut cx2);
        with(|s| {
            s.chosen = None;
            s.last = Some(id);
            if r.is_ready() {
                s.note(id, "done");
                s.live.remove(&id);
                s.runnable.remove(&id);
            }
        });
        r
    }
}

impl<F> Drop for SimTask<F> {
    fn drop(&mut self) {
        let id = self.id;
        try_with(|s| {
            s.runnable.remove(&id);
            if s.chosen == Some(id) {
                s.chosen = None;
            }
            if s.live.remove(&id) {
                s.note(id, "drop");
            }
        });
    }
}

pub fn new_task<F: Future>(f: F) -> SimTask<F> {
    let id = with(|s| {
        let id = s.next_id;
        s.next_id += 1;
        s.tasks_spawned += 1;
        s.runnable.insert(id);
        s.live.insert(id);
        s.note(id, "spawn");
        if std::env::var_os("VERIF_SPAWN_BT").is_some() {
            if let Some(l) = s.log.as_mut() {
                let bt = std::backtrace::Backtrace::force_capture().to_string();
                let frames: Vec<&str> = bt.lines().filter(|x| x.contains("datafusion") && !x.contains("common_runtime") && !x.contains("l1::")).take(3).collect();
                l.push(format!("    spawned by: {}", frames.join(" <- ")));
            }
        }
        id
    });
    SimTask { id, fut: Box::pin(f) }
}

pub struct SimTracer;
impl JoinSetTracer for SimTracer {
    fn trace_future(
        &self,
        fut: BoxFuture<'static, Box<dyn Any + Send>>,
    ) -> BoxFuture<'static, Box<dyn Any + Send>> {
        if SIM.with(|s| s.borrow().is_none()) {
            return fut;
        }
        new_task(fut).boxed()
    }
    fn trace_block(
        &self,
        f: Box<dyn FnOnce() -> Box<dyn Any + Send> + Send>,
    ) -> Box<dyn FnOnce() -> Box<dyn Any + Send> + Send> {
        // spawn_blocking runs on a real thread pool: outside the simulator's control
        try_with(|s| s.blocking_used = true);
        f
    }
}
pub static TRACER: SimTracer = SimTracer;

// SimTask<BoxFuture<..>> is Send because its only non-trivial field is the (Send) boxed future.
