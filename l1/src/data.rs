//! Generated tables. Every row carries a hidden unique id so that loss, duplication and
//! misrouting are decided by comparing id multisets. Data lives in the JSON case (shrinkable).
//!
//! Table schema: id Int64 NOT NULL (unique), k Int32 NULL, s Utf8 NULL, v Int64 NULL.
//! Script step JSON: {"b": [[k, s, v], ...]} batch | "p" pending | {"d": ms} delay |
//!                   "err" error | "panic" | "stall"

use arrow::array::{Array, ArrayRef, Int32Array, Int64Array, RecordBatch, StringArray};
use arrow::datatypes::{DataType, Field, Schema, SchemaRef};
use dst_common::rng::Rng;
use serde_json::{Value, json};
use std::sync::Arc;

pub fn table_schema() -> SchemaRef {
    Arc::new(Schema::new(vec![
        Field::new("id", DataType::Int64, false),
        Field::new("k", DataType::Int32, true),
        Field::new("s", DataType::Utf8, true),
        Field::new("v", DataType::Int64, true),
    ]))
}

#[derive(Clone, Debug, PartialEq, Eq, PartialOrd, Ord)]
pub struct Row {
    pub id: i64,
    pub k: Option<i32>,
    pub s: Option<String>,
    pub v: Option<i64>,
}

#[derive(Clone, Debug)]
pub enum Step {
    Batch(Vec<Row>),
    Pending,
    Delay(u64),
    Error,
    Panic,
    Stall,
    /// the same batch forever (an unbounded, always-ready input)
    Endless(Vec<Row>),
    /// an unbounded input that keeps producing fresh rows: batch n holds `rows` rows with keys
    /// base + stride * (row counter), s = "FILL", v = NULL, ids from FILLER_ID_BASE upwards
    Filler { base: i64, stride: i64, rows: u64 },
}

pub const FILLER_ID_BASE: i64 = 50_000;
pub const FILLER_KEY_BASE: i64 = 1_000;

/// Same table with the string column as Utf8View (inline <= 12 bytes / buffer-backed > 12 bytes).
pub fn table_schema_view() -> SchemaRef {
    Arc::new(Schema::new(vec![
        Field::new("id", DataType::Int64, false),
        Field::new("k", DataType::Int32, true),
        Field::new("s", DataType::Utf8View, true),
        Field::new("v", DataType::Int64, true),
    ]))
}
pub fn schema_for(view: bool) -> SchemaRef {
    if view { table_schema_view() } else { table_schema() }
}
pub fn rows_to_batch_for(rows: &[Row], view: bool) -> RecordBatch {
    if !view {
        return rows_to_batch(rows);
    }
    let id: ArrayRef = Arc::new(Int64Array::from(rows.iter().map(|r| r.id).collect::<Vec<_>>()));
    let k: ArrayRef = Arc::new(Int32Array::from(rows.iter().map(|r| r.k).collect::<Vec<_>>()));
    let s: ArrayRef = Arc::new(arrow::array::StringViewArray::from(rows.iter().map(|r| r.s.clone()).collect::<Vec<_>>()));
    let v: ArrayRef = Arc::new(Int64Array::from(rows.iter().map(|r| r.v).collect::<Vec<_>>()));
    RecordBatch::try_new(table_schema_view(), vec![id, k, s, v]).unwrap()
}

pub fn rows_to_batch(rows: &[Row]) -> RecordBatch {
    let id: ArrayRef = Arc::new(Int64Array::from(rows.iter().map(|r| r.id).collect::<Vec<_>>()));
    let k: ArrayRef = Arc::new(Int32Array::from(rows.iter().map(|r| r.k).collect::<Vec<_>>()));
    let s: ArrayRef = Arc::new(StringArray::from(rows.iter().map(|r| r.s.clone()).collect::<Vec<_>>()));
    let v: ArrayRef = Arc::new(Int64Array::from(rows.iter().map(|r| r.v).collect::<Vec<_>>()));
    RecordBatch::try_new(table_schema(), vec![id, k, s, v]).unwrap()
}

pub fn batch_to_rows(b: &RecordBatch) -> Option<Vec<Row>> {
    let id = b.column_by_name("id")?.as_any().downcast_ref::<Int64Array>()?;
    let k = b.column_by_name("k")?.as_any().downcast_ref::<Int32Array>()?;
    let s = b.column_by_name("s")?;
    let s: Vec<Option<String>> = if let Some(a) = s.as_any().downcast_ref::<StringArray>() {
        (0..a.len()).map(|i| if a.is_null(i) { None } else { Some(a.value(i).to_string()) }).collect()
    } else if let Some(a) = s.as_any().downcast_ref::<arrow::array::StringViewArray>() {
        (0..a.len()).map(|i| if a.is_null(i) { None } else { Some(a.value(i).to_string()) }).collect()
    } else {
        return None;
    };
    let v = b.column_by_name("v")?.as_any().downcast_ref::<Int64Array>()?;
    Some(
        (0..b.num_rows())
            .map(|i| Row {
                id: id.value(i),
                k: if k.is_null(i) { None } else { Some(k.value(i)) },
                s: s[i].clone(),
                v: if v.is_null(i) { None } else { Some(v.value(i)) },
            })
            .collect(),
    )
}

pub fn ids_of(b: &RecordBatch) -> Vec<i64> {
    b.column_by_name("id")
        .and_then(|c| c.as_any().downcast_ref::<Int64Array>().map(|a| a.values().to_vec()))
        .unwrap_or_default()
}

/// Parses one partition's script; row ids are assigned positionally: part * 100_000 + index.
pub fn parse_script(v: &Value, part: usize) -> Option<Vec<Step>> {
    let mut out = vec![];
    let mut next = 0i64;
    for st in v.as_array()? {
        if let Some(s) = st.as_str() {
            out.push(match s {
                "p" => Step::Pending,
                "err" => Step::Error,
                "panic" => Step::Panic,
                "stall" => Step::Stall,
                _ => return None,
            });
        } else if let Some(f) = st.get("filler") {
            out.push(Step::Filler {
                base: f.get("base")?.as_i64()?.max(FILLER_KEY_BASE),
                stride: f.get("stride")?.as_i64()?.clamp(1, 10),
                rows: f.get("rows")?.as_u64()?.clamp(1, 16),
            });
        } else if let Some(b) = st.get("endless") {
            let mut rows = vec![];
            for r in b.as_array()? {
                let r = r.as_array()?;
                if r.len() != 3 {
                    return None;
                }
                rows.push(Row { id: part as i64 * 100_000 + next, k: r[0].as_i64().map(|x| x as i32), s: r[1].as_str().map(|x| x.to_string()), v: r[2].as_i64() });
                next += 1;
            }
            if rows.is_empty() || rows.len() > 64 {
                return None;
            }
            out.push(Step::Endless(rows));
        } else if let Some(d) = st.get("d") {
            out.push(Step::Delay(d.as_u64()?.min(100_000)));
        } else if let Some(b) = st.get("b") {
            let mut rows = vec![];
            for r in b.as_array()? {
                let r = r.as_array()?;
                if r.len() != 3 {
                    return None;
                }
                rows.push(Row {
                    id: part as i64 * 100_000 + next,
                    k: r[0].as_i64().map(|x| x as i32),
                    s: r[1].as_str().map(|x| x.to_string()),
                    v: r[2].as_i64(),
                });
                next += 1;
            }
            if rows.len() > 4096 {
                return None;
            }
            out.push(Step::Batch(rows));
        } else {
            return None;
        }
    }
    if out.len() > 400 {
        return None;
    }
    Some(out)
}

pub fn parse_table(v: &Value) -> Option<Vec<Vec<Step>>> {
    let parts = v.as_array()?;
    if parts.is_empty() || parts.len() > 16 {
        return None;
    }
    parts.iter().enumerate().map(|(i, p)| parse_script(p, i)).collect()
}

pub fn all_rows(table: &[Vec<Step>]) -> Vec<Row> {
    let mut out = vec![];
    for p in table {
        for s in p {
            if let Step::Batch(r) = s {
                out.extend(r.iter().cloned());
            }
        }
    }
    out
}

pub struct TableGen {
    pub parts: (u64, u64),
    pub batches: (u64, u64),
    pub rows: (u64, u64),
    pub key_domain: i64,
    /// out of 100: chance of a Pending / Delay step between batches
    pub pending_pct: u64,
    pub delay_pct: u64,
    pub null_pct: u64,
    pub sorted_by_k: bool,
    /// out of 100: chance that a batch is forced to be empty (zero rows)
    pub empty_pct: u64,
}

impl Default for TableGen {
    fn default() -> Self {
        TableGen { parts: (1, 4), batches: (0, 6), rows: (0, 12), key_domain: 6, pending_pct: 25, delay_pct: 10, null_pct: 12, sorted_by_k: false, empty_pct: 0 }
    }
}

impl TableGen {
    pub fn generate(&self, rng: &mut Rng) -> Value {
        let np = rng.range(self.parts.0, self.parts.1);
        let mut parts = vec![];
        for _ in 0..np {
            let nb = rng.range(self.batches.0, self.batches.1);
            // generate all rows of the partition first (so they can be sorted), then cut batches
            let mut sizes = vec![];
            for _ in 0..nb {
                let n = rng.range(self.rows.0, self.rows.1);
                sizes.push(if self.empty_pct > 0 && rng.below(100) < self.empty_pct { 0 } else { n });
            }
            let total: u64 = sizes.iter().sum();
            let mut rows: Vec<(Option<i64>, Option<String>, Option<i64>)> = (0..total)
                .map(|_| {
                    let k = if rng.below(100) < self.null_pct { None } else { Some(rng.below(self.key_domain as u64) as i64) };
                    let s = if rng.below(100) < self.null_pct {
                        None
                    } else if rng.below(100) < 20 {
                        // strings around the 12-byte inline limit of view arrays that share a prefix
                        Some(match rng.below(4) {
                            0 => format!("abcd{}", ["a", "b", "y"][rng.below(3) as usize]),
                            1 => format!("abcd{}_a_long_tail", ["c", "x"][rng.below(2) as usize]),
                            2 => "abcdefghijkl".to_string(),
                            _ => format!("abcdefghijklm{}", rng.below(3)),
                        })
                    } else {
                        Some(format!("{}{}", ["a", "b", "c", "dd", ""][rng.below(5) as usize], rng.below(4)))
                    };
                    let v = if rng.below(100) < self.null_pct { None } else { Some(rng.below(1000) as i64 - 300) };
                    (k, s, v)
                })
                .collect();
            if self.sorted_by_k {
                // NULLS FIRST ascending (Option ordering: None < Some)
                rows.sort_by(|a, b| a.0.cmp(&b.0));
            }
            let mut steps = vec![];
            let mut pos = 0usize;
            for sz in sizes {
                if rng.below(100) < self.pending_pct {
                    steps.push(json!("p"));
                }
                if rng.below(100) < self.delay_pct {
                    steps.push(json!({"d": rng.range(1, 50)}));
                }
                let chunk: Vec<Value> = rows[pos..pos + sz as usize].iter().map(|(k, s, v)| json!([k, s, v])).collect();
                pos += sz as usize;
                steps.push(json!({"b": chunk}));
            }
            if rng.below(100) < self.pending_pct {
                steps.push(json!("p"));
            }
            parts.push(json!(steps));
        }
        json!(parts)
    }
}
