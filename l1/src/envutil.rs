//! The simulated environment of one run: session/task configuration knobs, memory pool with noisy
//! neighbour, SimDisk — generated from the seed, stored in the case, rebuilt identically on replay.

use crate::pool::NeighbourPool;
use crate::runner::{Outcome, violation};
use crate::sim;
use crate::source::SimSourceExec;
use arrow::record_batch::RecordBatch;
use datafusion_common::{DataFusionError, Result};
use datafusion_common_runtime::SpawnedTask;
use datafusion_execution::TaskContext;
use datafusion_execution::config::SessionConfig;
use datafusion_execution::disk_manager::{DiskManagerBuilder, DiskManagerMode};
use datafusion_execution::runtime_env::{RuntimeEnv, RuntimeEnvBuilder};
use datafusion_physical_plan::ExecutionPlan;
use dst_common::rng::Rng;
use dst_simenv::disk::{Fault, FaultKind, SimDisk, SimDiskFactory};
use futures::StreamExt;
use serde_json::{Value, json};
use std::sync::Arc;

#[derive(Clone, Debug)]
pub struct EnvSpec {
    pub batch_size: usize,
    pub pool_kind: String,
    pub pool_limit: usize,
    pub neighbour: Vec<(u64, usize, Option<u64>)>,
    pub max_spill_file: usize,
    pub merge_fan_in: usize,
    pub read_chunk: usize,
    pub pending_every: u64,
    pub write_buffer: u64,
    pub disk_faults: Vec<Fault>,
    pub compression: String,
    pub sort_spill_reservation: usize,
    pub sort_in_place_threshold: usize,
}

impl EnvSpec {
    /// `pressure`: whether memory limits small enough to force spilling are in the mix.
    pub fn generate(rng: &mut Rng, pressure: bool) -> Value {
        let (kind, limit) = if pressure && rng.chance(1, 2) {
            // fixed steps and arbitrary values in between (thresholds such as "one merge stream fits,
            // two do not" are only met by limits that are not round numbers)
            let limit = match rng.below(3) {
                0 => rng.below(8_000),
                1 => rng.below(40_000),
                _ => *rng.pick(&[0u64, 300, 1_000, 4_000, 20_000, 100_000]),
            };
            (*rng.pick(&["greedy", "fair"]), limit)
        } else {
            ("unbounded", 0)
        };
        let mut neighbour: Vec<Value> = if kind != "unbounded" && rng.chance(1, 3) {
            (0..rng.range(1, 3)).map(|_| json!([rng.below(12), rng.below(limit.max(1) + 1)])).collect()
        } else {
            vec![]
        };
        // "squeeze" steps: at the n-th growth request the neighbour takes everything that is free except
        // `leave` bytes and gives it back `dur` requests later
        if kind != "unbounded" && rng.chance(1, 3) {
            for _ in 0..rng.range(1, 3) {
                neighbour.push(json!([rng.below(80), rng.below(6_000), rng.range(1, 8)]));
            }
        }
        // a quarter of the bounded pools are ample, with a neighbour that squeezes them for a moment:
        // operators spill once or twice at arbitrary points and then carry on
        let limit = if kind != "unbounded" && rng.chance(1, 4) {
            neighbour = (0..rng.range(1, 3)).map(|_| json!([rng.below(90), rng.below(600), rng.range(1, 6)])).collect();
            rng.range(8_000, 80_000)
        } else {
            limit
        };
        json!({
            "batch_size": *rng.pick(&[1u64, 2, 3, 8, 64, 8192]),
            "pool": {"kind": kind, "limit": limit, "neighbour": neighbour},
            "max_spill_file": *rng.pick(&[1u64, 200, 2_000, 100_000_000]),
            "merge_fan_in": *rng.pick(&[0u64, 0, 2, 2, 3, 8]),
            "disk": {"read_chunk": *rng.pick(&[0u64, 0, 1, 13, 100]), "pending_every": *rng.pick(&[0u64, 0, 1, 3]), "write_buffer": *rng.pick(&[0u64, 0, 0, 24, 200, 8192]), "faults": []},
            "compression": *rng.pick(&["uncompressed", "uncompressed", "lz4_frame", "zstd"]),
            "sort_spill_reservation": *rng.pick(&[0u64, 64, 1024, 10_485_760]),
            "sort_in_place_threshold": *rng.pick(&[0u64, 512, 1_048_576]),
        })
    }
    pub fn parse(v: &Value) -> Option<EnvSpec> {
        let pool = v.get("pool")?;
        let mut neighbour = vec![];
        for n in pool.get("neighbour")?.as_array()? {
            let a = n.as_array()?;
            neighbour.push((a.first()?.as_u64()?, a.get(1)?.as_u64()? as usize, a.get(2).and_then(|d| d.as_u64())));
        }
        let disk = v.get("disk")?;
        let mut disk_faults = vec![];
        for f in disk.get("faults")?.as_array()? {
            disk_faults.push(Fault {
                kind: FaultKind::parse(f.get("kind")?.as_str()?)?,
                nth: f.get("nth")?.as_u64()?,
                sticky: f.get("sticky")?.as_bool()?,
                torn: f.get("torn")?.as_bool()?,
            });
        }
        Some(EnvSpec {
            batch_size: (v.get("batch_size")?.as_u64()? as usize).clamp(1, 1 << 20),
            pool_kind: pool.get("kind")?.as_str()?.to_string(),
            pool_limit: pool.get("limit")?.as_u64()? as usize,
            neighbour,
            max_spill_file: (v.get("max_spill_file")?.as_u64()? as usize).max(1),
            merge_fan_in: v.get("merge_fan_in").and_then(|x| x.as_u64()).unwrap_or(0) as usize,
            read_chunk: disk.get("read_chunk")?.as_u64()? as usize,
            pending_every: disk.get("pending_every")?.as_u64()?,
            write_buffer: disk.get("write_buffer").and_then(|x| x.as_u64()).unwrap_or(0).min(1 << 20),
            disk_faults,
            compression: v.get("compression")?.as_str()?.to_string(),
            sort_spill_reservation: v.get("sort_spill_reservation")?.as_u64()? as usize,
            sort_in_place_threshold: v.get("sort_in_place_threshold")?.as_u64()? as usize,
        })
    }
    pub fn session_config(&self) -> SessionConfig {
        let mut cfg = SessionConfig::new().with_batch_size(self.batch_size);
        let o = cfg.options_mut();
        let _ = o.set("datafusion.execution.max_spill_file_size_bytes", &self.max_spill_file.to_string());
        let _ = o.set("datafusion.execution.spill_compression", &self.compression);
        let _ = o.set("datafusion.execution.sort_spill_reservation_bytes", &self.sort_spill_reservation.to_string());
        let _ = o.set("datafusion.execution.sort_in_place_threshold_bytes", &self.sort_in_place_threshold.to_string());
        cfg
    }
    pub fn build(&self) -> Ctx {
        let pool = NeighbourPool::new(&self.pool_kind, self.pool_limit, self.neighbour.clone());
        let disk = SimDisk::new(self.disk_faults.clone(), self.read_chunk, self.pending_every);
        disk.set_write_buffer(self.write_buffer);
        let rt = RuntimeEnvBuilder::new()
            .with_memory_pool(pool.clone())
            .with_disk_manager_builder(
                DiskManagerBuilder::default()
                    .with_mode(DiskManagerMode::Custom(Arc::new(SimDiskFactory(disk.clone()))))
                    .with_max_spill_merge_fan_in(self.merge_fan_in),
            )
            .build_arc()
            .expect("runtime env");
        let task = Arc::new(TaskContext::default().with_session_config(self.session_config()).with_runtime(rt.clone()));
        Ctx { task, runtime: rt, pool, disk }
    }
}

pub struct Ctx {
    pub task: Arc<TaskContext>,
    pub runtime: Arc<RuntimeEnv>,
    pub pool: Arc<NeighbourPool>,
    pub disk: Arc<SimDisk>,
}

impl Ctx {
    /// Folds disk/pool statistics into the probes and checks the release invariants that must hold
    /// once a query has finished or was dropped and the system went idle.
    pub fn quiescence_violation(&self, sources: &[&Arc<SimSourceExec>]) -> Option<Outcome> {
        let stats: Vec<(String, Arc<crate::source::SourceStats>)> =
            sources.iter().map(|s| (s.name.clone(), Arc::clone(&s.stats))).collect();
        self.quiescence_violation_stats(&stats)
    }
    pub fn quiescence_violation_stats(&self, sources: &[(String, Arc<crate::source::SourceStats>)]) -> Option<Outcome> {
        use std::sync::atomic::Ordering::Relaxed;
        for k in [FaultKind::Create, FaultKind::Write, FaultKind::Flush, FaultKind::Finish, FaultKind::Read] {
            let n = self.disk.fired(k);
            if n > 0 {
                sim::probe_n(&format!("fault.disk_{}", k.as_str()), n);
            }
        }
        sim::probe_n("probe.spill_files_created", self.disk.stats.files_created.load(Relaxed));
        sim::probe_n("probe.spill_bytes_written", self.disk.stats.bytes_written.load(Relaxed));
        sim::probe_n("probe.try_grow_granted", self.pool.granted.load(Relaxed));
        sim::probe_max("max.query_reserved_bytes", self.pool.peak_query.load(Relaxed));
        self.pool.release_neighbour();
        let live = sim::live_tasks();
        if live > 1 {
            return Some(violation("task-leak", format!("{} background tasks are still alive after the query ended and the system went idle", live - 1)));
        }
        for (name, st) in sources {
            let live = st.live_streams.load(Relaxed);
            if live != 0 {
                return Some(violation("input-stream-leak", format!("{live} input streams of {name} were never released")));
            }
        }
        if self.pool.query_reserved() != 0 {
            return Some(violation("memory-leak", format!("{} bytes still reserved in the memory pool after the query ended", self.pool.query_reserved())));
        }
        if self.disk.live_files() != 0 {
            return Some(violation("spill-file-leak", format!("{} spill files ({} bytes) still exist after the query ended", self.disk.live_files(), self.disk.live_bytes())));
        }
        None
    }
}

/// Executes every output partition of `plan` in its own (simulated, concurrently schedulable)
/// task. `drops[p] = Some(k)` drops partition p's stream after k batches.
pub async fn consume_partitions(
    plan: &Arc<dyn ExecutionPlan>,
    task: &Arc<TaskContext>,
    drops: &[Option<u64>],
) -> Vec<Result<Vec<RecordBatch>>> {
    let n = plan.properties().partitioning.partition_count();
    let mut handles = vec![];
    // streams that reached end-of-stream and are still held: when the last one gets there, everything the
    // plan buffered has been handed out (see `probe.reserved_at_last_eof`)
    let at_eof = Arc::new(std::sync::atomic::AtomicUsize::new(0));
    for p in 0..n {
        let plan = Arc::clone(plan);
        let task = Arc::clone(task);
        let limit = drops.get(p).copied().flatten();
        let at_eof = Arc::clone(&at_eof);
        handles.push(SpawnedTask::spawn(async move {
            let mut out = vec![];
            if limit == Some(0) {
                // open and drop immediately
                let s = plan.execute(p, task)?;
                drop(s);
                return Ok(out);
            }
            let mut s = plan.execute(p, task)?;
            while let Some(b) = s.next().await {
                out.push(b?);
                sim::trace_event("out_batch", p as u64);
                if limit.is_some_and(|l| out.len() as u64 >= l) {
                    drop(s);
                    return Ok(out);
                }
            }
            // end-of-stream; the stream is still alive. If every output partition got here, note what
            // the memory pool still holds for the query while all of its streams exist
            if at_eof.fetch_add(1, std::sync::atomic::Ordering::Relaxed) + 1 == n {
                sim::probe("probe.all_outputs_at_eof");
                if let Some(r) = crate::pool::current_query_reserved() {
                    sim::probe_max("probe.reserved_at_last_eof_max", r as u64);
                    sim::with(|s| s.reserved_at_last_eof = Some(r));
                }
            }
            drop(s);
            Ok::<_, DataFusionError>(out)
        }));
    }
    let mut res = vec![];
    for h in handles {
        match h.join().await {
            Ok(r) => res.push(r),
            Err(e) => {
                if e.is_panic() {
                    std::panic::resume_unwind(e.into_panic());
                }
                res.push(Err(DataFusionError::Execution(format!("consumer task failed: {e}"))));
            }
        }
    }
    res
}

/// True if a `ResourcesExhausted` error is anywhere in the error's source chain.
pub fn is_resources_exhausted(e: &DataFusionError) -> bool {
    if matches!(e.find_root(), DataFusionError::ResourcesExhausted(_)) {
        return true;
    }
    let mut cur: Option<&(dyn std::error::Error + 'static)> = Some(e);
    while let Some(err) = cur {
        if let Some(df) = err.downcast_ref::<DataFusionError>() {
            if matches!(df, DataFusionError::ResourcesExhausted(_)) {
                return true;
            }
        }
        cur = err.source();
    }
    e.to_string().contains("Resources exhausted")
}
