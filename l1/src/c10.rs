//! C10 — repartitioning delivers every row exactly once to the right partition.
//! Real: RepartitionExec (all of repartition/mod.rs), distributor channels, spill pool, coalescer,
//! streaming merge (preserve_order). Stub: sources, pool neighbour, disk.

use crate::data::{Row, TableGen, all_rows, batch_to_rows, parse_table};
use crate::envutil::{EnvSpec, consume_partitions};
use crate::runner::{Check, Outcome, RunFuture, Scenario, violation};
use crate::sim;
use crate::source::SimSourceExec;
use arrow::array::{ArrayRef, Int32Array, StringArray};
use arrow::compute::SortOptions;
use datafusion_common::hash_utils::create_hashes;
use datafusion_physical_expr::expressions::col;
use datafusion_common::{ScalarValue, SplitPoint};
use datafusion_physical_expr::{LexOrdering, Partitioning, PhysicalExpr, PhysicalSortExpr, RangePartitioning};
use datafusion_physical_plan::ExecutionPlan;
use datafusion_physical_plan::repartition::{REPARTITION_RANDOM_STATE, RangeExpr, RepartitionExec};
use dst_common::Tier;
use dst_common::rng::Rng;
use serde_json::{Value, json};
use std::sync::Arc;

pub struct Repartition;

fn expected_hash_partition(rows: &[Row], keys: &[String], n: usize) -> Vec<usize> {
    let mut arrays: Vec<ArrayRef> = vec![];
    for k in keys {
        match k.as_str() {
            "k" => arrays.push(Arc::new(Int32Array::from(rows.iter().map(|r| r.k).collect::<Vec<_>>()))),
            "s" => arrays.push(Arc::new(StringArray::from(rows.iter().map(|r| r.s.clone()).collect::<Vec<_>>()))),
            _ => arrays.push(Arc::new(arrow::array::Int64Array::from(rows.iter().map(|r| r.v).collect::<Vec<_>>()))),
        }
    }
    let mut buf = vec![0u64; rows.len()];
    create_hashes(&arrays, REPARTITION_RANDOM_STATE.random_state(), &mut buf).expect("create_hashes");
    buf.iter().map(|h| (*h % n as u64) as usize).collect()
}


/// One key of a range partitioning: column, direction, null placement.
#[derive(Clone, Debug)]
struct RangeKey {
    col: String,
    desc: bool,
    nulls_first: bool,
}

/// A key value of a row or of a split point (k, s or v), as JSON: null | integer | string.
fn cmp_json(a: &Value, b: &Value, key: &RangeKey) -> std::cmp::Ordering {
    use std::cmp::Ordering::*;
    match (a.is_null(), b.is_null()) {
        (true, true) => Equal,
        (true, false) => {
            if key.nulls_first { Less } else { Greater }
        }
        (false, true) => {
            if key.nulls_first { Greater } else { Less }
        }
        (false, false) => {
            let c = match (a.as_i64(), b.as_i64()) {
                (Some(x), Some(y)) => x.cmp(&y),
                _ => a.as_str().unwrap_or("").cmp(b.as_str().unwrap_or("")),
            };
            if key.desc { c.reverse() } else { c }
        }
    }
}
fn cmp_tuple(a: &[Value], b: &[Value], keys: &[RangeKey]) -> std::cmp::Ordering {
    for (i, k) in keys.iter().enumerate() {
        let c = cmp_json(&a[i], &b[i], k);
        if c != std::cmp::Ordering::Equal {
            return c;
        }
    }
    std::cmp::Ordering::Equal
}
fn row_key(r: &Row, keys: &[RangeKey]) -> Vec<Value> {
    keys.iter()
        .map(|k| match k.col.as_str() {
            "k" => json!(r.k),
            "s" => json!(r.s),
            _ => json!(r.v),
        })
        .collect()
}
/// The documented routing function: partition i holds the keys at/after split point i-1 and
/// before split point i, i.e. the number of split points that are <= the row's key.
fn expected_range_partition(rows: &[Row], keys: &[RangeKey], splits: &[Vec<Value>]) -> Vec<usize> {
    rows.iter()
        .map(|r| {
            let key = row_key(r, keys);
            splits.iter().filter(|sp| cmp_tuple(sp, &key, keys) != std::cmp::Ordering::Greater).count()
        })
        .collect()
}
fn scalar_of(col: &str, v: &Value) -> Option<ScalarValue> {
    Some(match col {
        "k" => ScalarValue::Int32(if v.is_null() { None } else { Some(v.as_i64()? as i32) }),
        "s" => ScalarValue::Utf8(if v.is_null() { None } else { Some(v.as_str()?.to_string()) }),
        "v" => ScalarValue::Int64(if v.is_null() { None } else { Some(v.as_i64()?) }),
        _ => return None,
    })
}
fn parse_range(v: &Value) -> Option<(Vec<RangeKey>, Vec<Vec<Value>>)> {
    let keys: Vec<RangeKey> = v
        .get("keys")?
        .as_array()?
        .iter()
        .map(|k| {
            Some(RangeKey {
                col: k.get("col")?.as_str().filter(|c| ["k", "s", "v"].contains(c))?.to_string(),
                desc: k.get("desc")?.as_bool()?,
                nulls_first: k.get("nulls_first")?.as_bool()?,
            })
        })
        .collect::<Option<_>>()?;
    if keys.is_empty() || keys.len() > 3 {
        return None;
    }
    // distinct key columns (a LexOrdering drops duplicate expressions)
    for i in 0..keys.len() {
        for j in 0..i {
            if keys[i].col == keys[j].col {
                return None;
            }
        }
    }
    let mut splits: Vec<Vec<Value>> = vec![];
    for sp in v.get("splits")?.as_array()? {
        let t = sp.as_array()?.clone();
        if t.len() != keys.len() {
            return None;
        }
        for (i, k) in keys.iter().enumerate() {
            scalar_of(&k.col, &t[i])?;
        }
        splits.push(t);
    }
    if splits.len() > 15 {
        return None;
    }
    // the shrinker may edit split points: keep them strictly ordered (drop the others)
    let mut ordered: Vec<Vec<Value>> = vec![];
    for sp in splits {
        if ordered.last().is_none_or(|l| cmp_tuple(l, &sp, &keys) == std::cmp::Ordering::Less) {
            ordered.push(sp);
        }
    }
    Some((keys, ordered))
}
fn gen_range(rng: &mut Rng) -> Value {
    let mut cols = vec!["k", "s", "v"];
    let nk = *rng.pick(&[1usize, 1, 2, 3]);
    let mut keys = vec![];
    for _ in 0..nk {
        let c = cols.remove(rng.below(cols.len() as u64) as usize);
        keys.push(json!({"col": c, "desc": rng.chance(1, 2), "nulls_first": rng.chance(1, 2)}));
    }
    let rk: Vec<RangeKey> = keys
        .iter()
        .map(|k| RangeKey { col: k["col"].as_str().unwrap().to_string(), desc: k["desc"].as_bool().unwrap(), nulls_first: k["nulls_first"].as_bool().unwrap() })
        .collect();
    // candidate split tuples from the value domains of the generated tables (so that rows equal to a
    // split point, and NULL split values, occur), then sorted and de-duplicated under the ordering
    let n = *rng.pick(&[0u64, 1, 1, 2, 3, 5, 7]);
    let mut cands: Vec<Vec<Value>> = (0..n)
        .map(|_| {
            rk.iter()
                .map(|k| {
                    if rng.chance(1, 8) {
                        return Value::Null;
                    }
                    match k.col.as_str() {
                        "k" => json!(rng.below(7) as i64),
                        "s" => json!(format!("{}{}", ["a", "b", "c", "dd", "", "abcd"][rng.below(6) as usize], rng.below(4))),
                        _ => json!(rng.below(1000) as i64 - 300),
                    }
                })
                .collect()
        })
        .collect();
    cands.sort_by(|a, b| cmp_tuple(a, b, &rk));
    cands.dedup_by(|a, b| cmp_tuple(a, b, &rk) == std::cmp::Ordering::Equal);
    json!({"keys": keys, "splits": cands})
}

impl Scenario for Repartition {
    fn name(&self) -> &'static str {
        "c10-repartition"
    }
    fn generate(&self, rng: &mut Rng, tier: Tier) -> Value {
        let preserve = rng.chance(1, 3);
        let big = tier == Tier::Thorough;
        let tg = TableGen {
            parts: (1, 4),
            batches: (0, if big { 8 } else { 6 }),
            rows: (0, if big { 32 } else { 12 }),
            sorted_by_k: preserve,
            // a third of the cases are rich in zero-row batches (they take the same send / spill /
            // marker paths as any other batch)
            empty_pct: *rng.pick(&[0u64, 0, 30]),
            ..Default::default()
        };
        let table = tg.generate(rng);
        let mode = *rng.pick(&["hash", "hash", "rr", "rr", "range", "range"]);
        let keys: Vec<&str> = match rng.below(4) {
            0 => vec!["k"],
            1 => vec!["s"],
            2 => vec!["k", "s"],
            _ => vec!["k", "s", "v"],
        };
        let range = gen_range(rng);
        let outputs = if mode == "range" { range["splits"].as_array().map_or(1, |a| a.len() as u64 + 1) } else { rng.range(1, 8) };
        let drops: Vec<Value> =
            (0..outputs).map(|_| if rng.chance(1, 8) { json!(rng.range(0, 2)) } else { Value::Null }).collect();
        json!({
            "table": table,
            "range": if mode == "range" { range } else { Value::Null },
            "mode": mode,
            "keys": keys,
            "outputs": outputs,
            "preserve_order": preserve,
            "drops": drops,
            "env": EnvSpec::generate(rng, true),
        })
    }
    fn run(&self, case: Value) -> RunFuture {
        Box::pin(async move { run(case, false).await })
    }
}

/// C20 at operator level: the same exchange with one input error injected and some outputs
/// dropped early; every output that is read to its end must report the error.
pub struct RepartitionFaults;

impl Scenario for RepartitionFaults {
    fn name(&self) -> &'static str {
        "c20-repartition"
    }
    fn generate(&self, rng: &mut Rng, tier: Tier) -> Value {
        let mut case = Repartition.generate(rng, tier);
        // one error at a random step of a random input partition
        if let Some(parts) = case["table"].as_array_mut() {
            let p = rng.below(parts.len() as u64) as usize;
            if let Some(steps) = parts[p].as_array_mut() {
                let pos = rng.below(steps.len() as u64 + 1) as usize;
                steps.insert(pos, json!("err"));
            }
        }
        // more early drops than in C10: the interesting cases mix dead and live outputs
        let outputs = case["outputs"].as_u64().unwrap_or(1);
        let drops: Vec<Value> = (0..outputs).map(|_| if rng.chance(1, 3) { json!(rng.range(0, 2)) } else { Value::Null }).collect();
        case["drops"] = json!(drops);
        case["env"]["pool"] = json!({"kind": "unbounded", "limit": 0, "neighbour": []});
        case
    }
    fn run(&self, case: Value) -> RunFuture {
        Box::pin(async move { run(case, true).await })
    }
}

async fn run(case: Value, fault_mode: bool) -> Outcome {
    let Some(table) = parse_table(&case["table"]) else { return Outcome::Invalid };
    let Some(outputs) = case["outputs"].as_u64().filter(|n| (1..=16).contains(n)) else { return Outcome::Invalid };
    let mut outputs = outputs as usize;
    let range = if case["mode"].as_str() == Some("range") {
        let Some(r) = parse_range(&case["range"]) else { return Outcome::Invalid };
        outputs = r.1.len() + 1;
        Some(r)
    } else {
        None
    };
    let Some(env) = EnvSpec::parse(&case["env"]) else { return Outcome::Invalid };
    let keys: Vec<String> = match case["keys"].as_array() {
        Some(a) => a.iter().filter_map(|x| x.as_str().map(|s| s.to_string())).collect(),
        None => return Outcome::Invalid,
    };
    if keys.is_empty() || keys.iter().any(|k| !["k", "s", "v"].contains(&k.as_str())) {
        return Outcome::Invalid;
    }
    let preserve = case["preserve_order"].as_bool().unwrap_or(false);
    let hash = case["mode"].as_str() == Some("hash");
    let drops: Vec<Option<u64>> = match case["drops"].as_array() {
        Some(a) if a.len() == outputs => a.iter().map(|x| x.as_u64()).collect(),
        _ => vec![None; outputs],
    };
    let rows = all_rows(&table);
    let n_in = table.len();
    // preserve_order needs sorted inputs: check the generated data really is sorted per partition
    if preserve {
        for p in &table {
            let mut last: Option<Option<i32>> = None;
            for st in p {
                if let crate::data::Step::Batch(rs) = st {
                    for r in rs {
                        if let Some(l) = last {
                            if r.k < l {
                                return Outcome::Invalid;
                            }
                        }
                        last = Some(r.k);
                    }
                }
            }
        }
    }
    let ctx = env.build();
    let schema = crate::data::table_schema();
    let ordering = LexOrdering::new(vec![PhysicalSortExpr::new(
        col("k", &schema).unwrap(),
        SortOptions { descending: false, nulls_first: true },
    )]);
    let source = Arc::new(SimSourceExec::with_ordering("t", table, if preserve { ordering } else { None }, false));
    let mut range_expr: Option<RangeExpr> = None;
    let partitioning = if let Some((rkeys, splits)) = &range {
        let Some(ord) = LexOrdering::new(rkeys.iter().map(|k| {
            PhysicalSortExpr::new(col(&k.col, &schema).unwrap(), SortOptions { descending: k.desc, nulls_first: k.nulls_first })
        })) else {
            return Outcome::Invalid;
        };
        let points: Vec<SplitPoint> = splits
            .iter()
            .map(|sp| SplitPoint::new(sp.iter().zip(rkeys.iter()).map(|(v, k)| scalar_of(&k.col, v).unwrap()).collect()))
            .collect();
        let rp = match RangePartitioning::try_new(ord, points) {
            Ok(rp) => rp,
            Err(e) => return violation("plan-error", format!("RangePartitioning::try_new rejected strictly ordered split points: {e}")),
        };
        match RangeExpr::try_new(rkeys.iter().map(|k| col(&k.col, &schema).unwrap()).collect(), &rp) {
            Ok(e) => range_expr = Some(e),
            Err(e) => return violation("plan-error", format!("RangeExpr::try_new failed: {e}")),
        }
        Partitioning::Range(rp)
    } else if hash {
        Partitioning::Hash(keys.iter().map(|k| col(k, &schema).unwrap()).collect(), outputs)
    } else {
        Partitioning::RoundRobinBatch(outputs)
    };
    let mut exec = match RepartitionExec::try_new(source.clone(), partitioning) {
        Ok(e) => e,
        Err(e) => return violation("plan-error", format!("RepartitionExec::try_new failed: {e}")),
    };
    if preserve {
        exec = exec.with_preserve_order();
    }
    let plan: Arc<dyn ExecutionPlan> = Arc::new(exec);
    let results = consume_partitions(&plan, &ctx.task, &drops).await;
    drop(plan);
    // let every background task run to completion / cancellation
    tokio::time::sleep(std::time::Duration::from_secs(3600)).await;

    // ---- oracle
    if fault_mode {
        let fired = sim::with(|s| s.probes.get("fault.source_error") > 0);
        if fired {
            for (p, r) in results.iter().enumerate() {
                if drops[p].is_none() {
                    if let Ok(batches) = r {
                        return violation(
                            "truncated-success",
                            format!("an input partition failed, but output {p} (read to its end) finished successfully with {} batches instead of reporting the error", batches.len()),
                        );
                    }
                }
            }
            sim::probe("probe.error_surfaced_on_every_live_output");
            if let Some(v) = ctx.quiescence_violation(&[&source]) {
                return v;
            }
            return Outcome::Pass;
        }
        sim::probe("probe.fault_not_reached");
    }
    let routed = hash || range.is_some();
    let expect_part: Vec<usize> = if let Some((rkeys, splits)) = &range {
        let e = expected_range_partition(&rows, rkeys, splits);
        // the range-partition expression must name the same output for every row (it is what
        // dynamic filters use to decide which partition a row belongs to)
        if let Some(rx) = &range_expr {
            let batch = crate::data::rows_to_batch(&rows);
            match rx.evaluate(&batch).and_then(|v| v.into_array(rows.len())) {
                Ok(arr) => {
                    let ids = arr.as_any().downcast_ref::<arrow::array::UInt64Array>();
                    let Some(ids) = ids else { return violation("range-expr", "RangeExpr did not return UInt64".into()) };
                    for (i, r) in rows.iter().enumerate() {
                        if ids.value(i) as usize != e[i] {
                            return violation("range-expr", format!("RangeExpr::evaluate names partition {} for row {} (key {:?}), the split points {:?} select {}", ids.value(i), r.id, row_key(r, rkeys), splits, e[i]));
                        }
                    }
                    sim::probe("probe.range_expr_checked");
                }
                Err(e) => return violation("range-expr", format!("RangeExpr::evaluate failed: {e}")),
            }
        }
        e
    } else if hash {
        expected_hash_partition(&rows, &keys, outputs)
    } else {
        vec![]
    };
    let mut seen: std::collections::BTreeMap<i64, usize> = Default::default();
    for (p, r) in results.iter().enumerate() {
        match r {
            Err(e) => {
                // A bounded pool may legitimately refuse a non-spillable consumer (C18's subject);
                // then the run is only checked for release of resources.
                if crate::envutil::is_resources_exhausted(e) && env.pool_kind != "unbounded" {
                    sim::probe("probe.resources_exhausted_run");
                    if let Some(v) = ctx.quiescence_violation(&[&source]) {
                        return v;
                    }
                    return Outcome::Pass;
                }
                return violation("unexpected-error", format!("output {p} failed without any injected fault: {e}"));
            }
            Ok(batches) => {
                let mut last_k: Option<Option<i32>> = None;
                for b in batches {
                    let Some(rs) = batch_to_rows(b) else { return violation("schema", "output batch has an unexpected schema".into()) };
                    for r in rs {
                        if let Some(prev) = seen.insert(r.id, p) {
                            return violation("duplicate-row", format!("row {} delivered to output {prev} and again to output {p}", r.id));
                        }
                        let Some(orig) = rows.iter().position(|x| x.id == r.id) else {
                            return violation("phantom-row", format!("row id {} was never in the input", r.id));
                        };
                        if rows[orig] != r {
                            return violation("corrupt-row", format!("row {} changed: {:?} -> {:?}", r.id, rows[orig], r));
                        }
                        if routed && expect_part[orig] != p {
                            let how = if hash { format!("hash % {outputs} on {keys:?}") } else { format!("range routing {:?}", case["range"]) };
                            return violation("misrouted-row", format!("row {} ({:?}) arrived at output {p}, {how} says {}", r.id, rows[orig], expect_part[orig]));
                        }
                        if preserve {
                            if let Some(prev) = last_k {
                                if r.k < prev {
                                    return violation("order-lost", format!("output {p} is not sorted by k: {:?} after {:?}", r.k, prev));
                                }
                            }
                            last_k = Some(r.k);
                        }
                    }
                }
            }
        }
    }
    // completeness: every row destined to an output that was read to the end must be there
    let any_drop = drops.iter().any(|d| d.is_some());
    for (i, r) in rows.iter().enumerate() {
        match seen.get(&r.id) {
            Some(_) => {}
            None => {
                let excused = if routed { drops[expect_part[i]].is_some() } else { any_drop };
                if !excused {
                    return violation("lost-row", format!("row {} (from input partition {}) was never delivered to any output", r.id, r.id / 100_000));
                }
            }
        }
    }
    if any_drop {
        sim::probe("probe.output_dropped_early");
    }
    if range.is_some() {
        sim::probe("probe.range_partitioning_run");
    }
    sim::probe_n("probe.input_partitions", n_in as u64);
    // every output was read to its end while all streams were still alive: everything the exchange had
    // buffered has been handed out, so its reservations must be back at zero (not only after the drop)
    if !any_drop {
        if let Some(r) = sim::with(|s| s.reserved_at_last_eof) {
            if r != 0 {
                return violation("memory-held-after-last-batch", format!("{r} bytes were still reserved when the last output reached end-of-stream (every row had been delivered, all streams still alive)"));
            }
        }
    }
    // quiescence invariants
    if let Some(v) = ctx.quiescence_violation(&[&source]) {
        return v;
    }
    Outcome::Pass
}

pub fn check() -> Check {
    Check {
        property: "C10",
        level: "exploration",
        scenarios: vec![Box::new(Repartition)],
        cases_quick: 40_000,
        cases_thorough: 600_000,
        rule: "runs: seeded cases (1-4 scripted input partitions x 0-8 batches x 0-32 rows with NULLs and duplicate keys, Pending/virtual delays between batches; round-robin, hash on 1-3 keys into 1-8 outputs, or range on 1-3 keys (ASC/DESC, NULLS FIRST/LAST) with 0-7 split points incl. NULL split values and rows equal to a split point, routing compared with the documented split-point rule and with RangeExpr::evaluate; preserve_order over sorted inputs; batch_size 1-64; pool from ample to refusing most growth + noisy neighbour, forcing spilled batches; tiny spill-file rotation; SimDisk read chunking; some outputs dropped after k batches), each under one seeded scheduler policy. distinct = distinct poll-order traces; non-trivial = >= 2 tasks runnable at some decision or a fault/refusal fired",
        assumptions: vec![
            "a task poll is atomic (races inside synchronous sections are covered at L2 for the channels and the spill pool)",
            "every output partition is consumed by its own concurrently schedulable task",
            "rows destined to an output that the consumer dropped early are excused",
        ],
        components: json!({
            "real": ["physical-plan/src/repartition/mod.rs", "repartition/distributor_channels.rs", "spill/spill_pool.rs + IPC", "sorts/streaming_merge (preserve_order)", "coalesce", "common-runtime SpawnedTask/JoinSet", "tokio current_thread runtime (paused clock)"],
            "stub": ["input partitions: SimSourceExec scripts", "memory: NeighbourPool over the real Greedy/FairSpill pool", "disk: SimDisk"],
        }),
    }
}
