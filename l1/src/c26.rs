//! C26 — parallel byte-range scans read every record exactly once.
//! (a) c26-boundary: AlignedBoundaryStream directly, for a generated file cut into 1..5 byte ranges
//!     at arbitrary positions, GET bodies chunked 1 byte .. whole and Pending-injecting;
//! (b) c26-scan: CSV / NDJSON listing tables over the simulated object store with
//!     repartition_file_scans and a tiny repartition_file_min_size, several files, 1-8 partitions.

use crate::envutil::EnvSpec;
use crate::objstore::{SimObjectStore, StoreSpec};
use crate::runner::{Check, Outcome, RunFuture, Scenario, violation};
use crate::sim;
use crate::sqlsim::{self, Cells, Consume};
use datafusion::prelude::SessionContext;
use datafusion_common_runtime::SpawnedTask;
use datafusion_datasource::boundary_stream::{AlignedBoundaryStream, END_SCAN_LOOKAHEAD};
use dst_common::Tier;
use dst_common::rng::Rng;
use futures::StreamExt;
use object_store::path::Path;
use object_store::{ObjectStore, ObjectStoreExt, PutPayload};
use serde_json::{Value, json};
use std::sync::Arc;

fn gen_store(rng: &mut Rng) -> Value {
    json!({
        "chunk": *rng.pick(&[0u64, 1, 2, 3, 7, 64, 1000]),
        "pending_every": *rng.pick(&[0u64, 0, 1, 3]),
        "latency_ms": *rng.pick(&[0u64, 0, 5]),
        "fail_get": Value::Null,
    })
}

/// Lines of a generated text file; `kind` 0 = arbitrary text, 1 = csv "id,text", 2 = ndjson.
fn gen_lines(rng: &mut Rng, kind: u64, id_base: u64, allow_long: bool) -> Vec<String> {
    let n = rng.range(0, 12);
    let mut out = vec![];
    for i in 0..n {
        let id = id_base + i;
        // 1 line in 25 is longer than one, two or three end-scan lookahead windows (16 KiB each), so
        // that the terminator search needs one or several follow-up GETs
        let text_len = if allow_long && rng.chance(1, 25) {
            END_SCAN_LOOKAHEAD as usize * rng.range(1, 3) as usize + rng.below(3000) as usize
        } else {
            rng.below(9) as usize
        };
        let text: String = (0..text_len).map(|j| (b'a' + ((id as usize + j) % 26) as u8) as char).collect();
        out.push(match kind {
            1 => format!("{id},{text}"),
            2 => format!("{{\"id\":{id},\"s\":\"{text}\"}}"),
            _ => {
                if rng.chance(1, 6) { String::new() } else { format!("{id}:{text}") }
            }
        });
    }
    out
}

fn join_lines(lines: &[String], crlf: bool, trailing: bool) -> String {
    let sep = if crlf { "\r\n" } else { "\n" };
    let mut s = lines.join(sep);
    if trailing && !lines.is_empty() {
        s.push_str(sep);
    }
    s
}

// ---------------------------------------------------------------------------------------
pub struct Boundary;

impl Scenario for Boundary {
    fn name(&self) -> &'static str {
        "c26-boundary"
    }
    fn weight(&self) -> u64 {
        3
    }
    fn generate(&self, rng: &mut Rng, _tier: Tier) -> Value {
        let lines = gen_lines(rng, 0, 0, true);
        let content = join_lines(&lines, rng.chance(1, 4), rng.chance(1, 2));
        let len = content.len() as u64;
        let k = rng.range(0, 4);
        let mut cuts: Vec<u64> = (0..k).map(|_| if len == 0 { 0 } else { rng.below(len + 1) }).collect();
        // bias some cuts to land exactly on / next to a line break
        let breaks: Vec<u64> = content.bytes().enumerate().filter(|(_, b)| *b == b'\n').map(|(i, _)| i as u64).collect();
        for c in cuts.iter_mut() {
            if !breaks.is_empty() && rng.chance(1, 2) {
                let b = *rng.pick(&breaks);
                *c = (b + rng.below(3)).saturating_sub(1).min(len);
            }
        }
        cuts.sort();
        json!({"content": content, "cuts": cuts, "store": gen_store(rng)})
    }
    fn run(&self, case: Value) -> RunFuture {
        Box::pin(async move {
            let Some(content) = case["content"].as_str().map(|s| s.to_string()) else { return Outcome::Invalid };
            let Some(spec) = StoreSpec::parse(&case["store"]) else { return Outcome::Invalid };
            let len = content.len() as u64;
            let mut cuts: Vec<u64> = case["cuts"].as_array().map(|a| a.iter().filter_map(|x| x.as_u64()).map(|c| c.min(len)).collect()).unwrap_or_default();
            if cuts.len() > 8 || len > 200_000 {
                return Outcome::Invalid;
            }
            cuts.sort();
            let store = SimObjectStore::new(spec);
            let path = Path::from("dir/file.txt");
            if store.inner.put(&path, PutPayload::from(content.clone().into_bytes())).await.is_err() {
                return violation("unexpected-error", "put failed".into());
            }
            let mut bounds = vec![0u64];
            bounds.extend(cuts.iter().copied());
            bounds.push(len);
            let mut hs = vec![];
            for w in bounds.windows(2) {
                let (start, end) = (w[0], w[1]);
                let store: Arc<dyn ObjectStore> = store.clone();
                let path = path.clone();
                hs.push(SpawnedTask::spawn(async move {
                    let mut s = AlignedBoundaryStream::new(store, path, start, end, len, b'\n').await?;
                    let mut out = vec![];
                    while let Some(b) = s.next().await {
                        out.extend_from_slice(&b?);
                    }
                    Ok::<_, object_store::Error>(out)
                }));
            }
            let mut pieces = vec![];
            for h in hs {
                match h.join().await {
                    Ok(Ok(p)) => pieces.push(p),
                    Ok(Err(e)) => return violation("unexpected-error", format!("range read failed: {e}")),
                    Err(e) => return violation("task-failed", format!("{e}")),
                }
            }
            let file = content.as_bytes();
            let mut pos = 0usize;
            for (i, p) in pieces.iter().enumerate() {
                // every piece starts at a record start and holds whole records
                if !(pos == 0 || pos >= file.len() || file[pos - 1] == b'\n') {
                    return violation("split-record", format!("range {i} ({}..{}) starts in the middle of a record at byte {pos}", bounds[i], bounds[i + 1]));
                }
                if pos + p.len() > file.len() || &file[pos..pos + p.len()] != p.as_slice() {
                    let what = if pos + p.len() <= file.len() { "different bytes" } else { "more bytes than the file has left" };
                    return violation(
                        "lost-or-duplicated-record",
                        format!("range {i} ({}..{}) produced {what}: after {pos} bytes delivered by earlier ranges it returned {:?}…", bounds[i], bounds[i + 1], String::from_utf8_lossy(&p[..p.len().min(40)])),
                    );
                }
                pos += p.len();
            }
            if pos != file.len() {
                return violation("lost-record", format!("all ranges together delivered {pos} of {} bytes", file.len()));
            }
            sim::probe_n("probe.ranges", pieces.len() as u64);
            if len > END_SCAN_LOOKAHEAD {
                sim::probe("probe.file_with_line_beyond_lookahead");
            }
            sim::probe_n("probe.get_requests", store.stats.gets.load(std::sync::atomic::Ordering::Relaxed));
            Outcome::Pass
        })
    }
}

// ---------------------------------------------------------------------------------------
pub struct Scan;

impl Scenario for Scan {
    fn name(&self) -> &'static str {
        "c26-scan"
    }
    fn generate(&self, rng: &mut Rng, _tier: Tier) -> Value {
        let csv = rng.chance(1, 2);
        let nfiles = rng.range(1, 3);
        let crlf = csv && rng.chance(1, 4);
        let files: Vec<Value> = (0..nfiles)
            .map(|f| {
                let lines = gen_lines(rng, if csv { 1 } else { 2 }, f * 1000, false);
                json!({"lines": lines, "trailing": rng.chance(1, 2)})
            })
            .collect();
        json!({
            "format": if csv { "csv" } else { "json" },
            "crlf": crlf,
            "files": files,
            "target_partitions": rng.range(1, 8),
            "min_size": *rng.pick(&[1u64, 1, 10, 100]),
            "store": gen_store(rng),
            "env": EnvSpec::generate(rng, false),
        })
    }
    fn run(&self, case: Value) -> RunFuture {
        Box::pin(async move {
            let Some(spec) = StoreSpec::parse(&case["store"]) else { return Outcome::Invalid };
            let Some(env) = EnvSpec::parse(&case["env"]) else { return Outcome::Invalid };
            let csv = case["format"].as_str() == Some("csv");
            let crlf = case["crlf"].as_bool().unwrap_or(false);
            let Some(files) = case["files"].as_array() else { return Outcome::Invalid };
            if files.is_empty() || files.len() > 6 {
                return Outcome::Invalid;
            }
            let store = SimObjectStore::new(spec);
            let mut expected: Vec<Cells> = vec![];
            for (i, f) in files.iter().enumerate() {
                let lines: Vec<String> = f["lines"].as_array().map(|a| a.iter().filter_map(|x| x.as_str().map(|s| s.to_string())).collect()).unwrap_or_default();
                for l in &lines {
                    // reference parse of our own line formats
                    let (id, s) = if csv {
                        let Some((a, b)) = l.split_once(',') else { return Outcome::Invalid };
                        (a.to_string(), b.to_string())
                    } else {
                        let Ok(v) = serde_json::from_str::<Value>(l) else { return Outcome::Invalid };
                        (v["id"].to_string(), v["s"].as_str().unwrap_or("").to_string())
                    };
                    // CSV: an empty field is read as NULL
                    let s = if csv && s.is_empty() { None } else { Some(s) };
                    expected.push(vec![Some(id), s]);
                }
                let content = join_lines(&lines, crlf, f["trailing"].as_bool().unwrap_or(true));
                let path = Path::from(format!("t/part-{i}.{}", if csv { "csv" } else { "json" }));
                if store.inner.put(&path, PutPayload::from(content.into_bytes())).await.is_err() {
                    return violation("unexpected-error", "put failed".into());
                }
            }
            let cx = env.build();
            let mut cfg = env.session_config().with_target_partitions(case["target_partitions"].as_u64().unwrap_or(2).clamp(1, 16) as usize);
            let o = cfg.options_mut();
            let _ = o.set("datafusion.optimizer.repartition_file_scans", "true");
            let _ = o.set("datafusion.optimizer.repartition_file_min_size", &case["min_size"].as_u64().unwrap_or(1).to_string());
            let ctx = SessionContext::new_with_config_rt(cfg, cx.runtime.clone());
            let url = url::Url::parse("sim://bucket").unwrap();
            ctx.register_object_store(&url, store.clone());
            let ddl = if csv {
                "CREATE EXTERNAL TABLE t (id BIGINT, s VARCHAR) STORED AS CSV LOCATION 'sim://bucket/t/' OPTIONS ('format.has_header' 'false')"
            } else {
                "CREATE EXTERNAL TABLE t (id BIGINT, s VARCHAR) STORED AS JSON LOCATION 'sim://bucket/t/'"
            };
            if let Err(e) = ctx.sql(ddl).await {
                return violation("template-error", format!("{e}"));
            }
            let ex = sqlsim::execute_sql(&ctx, "SELECT id, s FROM t", Consume::Partitions, None).await;
            let n_parts = ex.plan.as_ref().map(|p| p.properties().partitioning.partition_count()).unwrap_or(0);
            match ex.result {
                Err(e) => return violation("unexpected-error", format!("scan failed: {}", sqlsim::error_text(&e))),
                Ok(rows) => {
                    if let Some(d) = sqlsim::compare(&rows, &expected, false) {
                        return violation("wrong-records", format!("{} scan over {} files in {n_parts} partitions: {d}", if csv { "CSV" } else { "NDJSON" }, files.len()));
                    }
                }
            }
            sim::probe_n("probe.scan_partitions", n_parts as u64);
            if n_parts > files.len() {
                sim::probe("probe.file_split_into_byte_ranges");
            }
            drop(ctx);
            tokio::time::sleep(std::time::Duration::from_secs(600)).await;
            if let Some(v) = cx.quiescence_violation_stats(&[]) {
                return v;
            }
            Outcome::Pass
        })
    }
}

pub fn check() -> Check {
    Check {
        property: "C26",
        level: "exploration",
        scenarios: vec![Box::new(Boundary), Box::new(Scan)],
        cases_quick: 20_000,
        cases_thorough: 600_000,
        rule: "c26-boundary (3/4 of the runs): a generated text file (0-12 lines, empty lines, CRLF, with/without trailing newline, 1 in 25 lines longer than the 16 KiB end-scan lookahead) cut into 1-5 byte ranges at seeded positions (half of them on or next to a line break); AlignedBoundaryStream::new for every range over the simulated object store whose GET bodies are cut into chunks of 1/2/3/7/64/1000 bytes or whole, with injected Pending and virtual latency; concatenation of the ranges in order must be byte-identical to the file and every range must start at a record start. c26-scan: 1-3 CSV or NDJSON files in a listing table, repartition_file_scans on, repartition_file_min_size 1-100, target_partitions 1-8, every output partition consumed by its own task; row multiset must equal the files' records. distinct = distinct traces; non-trivial = a scheduling choice existed",
        assumptions: vec!["line terminator is '\\n' (CRLF files keep their '\\r' inside the record)", "records are our own generated line formats, parsed by a trivial reference"],
        components: json!({
            "real": ["datasource/src/boundary_stream.rs", "datasource file_groups / FileScanConfig repartitioning", "datasource-csv and datasource-json sources (c26-scan)", "ListingTable"],
            "stub": ["object store: SimObjectStore over object_store::memory::InMemory (chunking, Pending, latency)"],
        }),
    }
}
