//! `SimSourceExec`: a leaf ExecutionPlan whose partitions follow per-partition scripts (batches,
//! Pending, virtual-time delays, errors, panics, stalls). It counts live streams and what was
//! actually pulled, so oracles can speak about "the fault fired" and "the stream was released".

use crate::data::{Step, rows_to_batch, table_schema};
use crate::sim;
use arrow::datatypes::SchemaRef;
use arrow::record_batch::RecordBatch;
use datafusion_common::tree_node::TreeNodeRecursion;
use datafusion_common::{DataFusionError, Result};
use datafusion_execution::{RecordBatchStream, SendableRecordBatchStream, TaskContext};
use datafusion_physical_expr::{EquivalenceProperties, LexOrdering, Partitioning, PhysicalExpr};
use datafusion_physical_plan::execution_plan::{Boundedness, EmissionType, ReplaceChildrenOptions};
use datafusion_common::config::ConfigOptions;
use datafusion_physical_plan::filter_pushdown::{ChildPushdownResult, FilterPushdownPhase, FilterPushdownPropagation, PushedDown};
use datafusion_physical_plan::{DisplayAs, DisplayFormatType, ExecutionPlan, PlanProperties};
use futures::Stream;
use std::fmt;
use std::pin::Pin;
use std::sync::Arc;
use std::sync::atomic::{AtomicI64, AtomicU64, Ordering};
use std::task::{Context, Poll};

#[derive(Debug, Default)]
pub struct SourceStats {
    pub live_streams: AtomicI64,
    pub streams_opened: AtomicU64,
    pub polls: AtomicU64,
    pub batches: AtomicU64,
    pub rows: AtomicU64,
    pub errors_pulled: AtomicU64,
    pub finished: AtomicU64,
    pub filters_accepted: AtomicU64,
    pub rows_pruned: AtomicU64,
    /// set by a scenario that has seen enough: continuing ("filler") inputs stop producing and stay
    /// pending, so that what is already in flight can drain at whatever pace the schedule allows
    pub pause_fillers: std::sync::atomic::AtomicBool,
}

#[derive(Debug, Clone)]
pub struct SimSourceExec {
    pub name: String,
    schema: SchemaRef,
    scripts: Vec<Vec<Step>>,
    props: Arc<PlanProperties>,
    pub stats: Arc<SourceStats>,
    projection: Option<Vec<usize>>,
    /// whether this scan accepts filters pushed down by the physical optimizer (static and dynamic)
    pub accept_filters: bool,
    /// accepted filters, evaluated afresh on every batch
    filters: Vec<Arc<dyn PhysicalExpr>>,
    /// string column as Utf8View
    view: bool,
    /// behaves like DataFusion's own streaming sources (StreamingTableExec): declares itself
    /// cooperative and wraps its streams in `cooperative()`
    cooperative: bool,
}

impl SimSourceExec {
    pub fn with_cooperative(mut self, yes: bool) -> Self {
        if yes {
            self.cooperative = true;
            let p = (*self.props).clone().with_scheduling_type(datafusion_physical_plan::execution_plan::SchedulingType::Cooperative);
            self.props = Arc::new(p);
        }
        self
    }
    pub fn new(name: &str, scripts: Vec<Vec<Step>>) -> Self {
        Self::with_ordering(name, scripts, None, false)
    }
    pub fn with_ordering(name: &str, scripts: Vec<Vec<Step>>, ordering: Option<LexOrdering>, unbounded: bool) -> Self {
        Self::build(name, scripts, ordering, unbounded, None, Arc::new(SourceStats::default()))
    }
    /// Full constructor: `projection` selects columns of the table schema; `stats` may be shared by
    /// all scans of one table.
    pub fn build(
        name: &str,
        scripts: Vec<Vec<Step>>,
        ordering: Option<LexOrdering>,
        unbounded: bool,
        projection: Option<Vec<usize>>,
        stats: Arc<SourceStats>,
    ) -> Self {
        Self::build_view(name, scripts, ordering, unbounded, projection, stats, false)
    }
    #[allow(clippy::too_many_arguments)]
    pub fn build_view(
        name: &str,
        scripts: Vec<Vec<Step>>,
        ordering: Option<LexOrdering>,
        unbounded: bool,
        projection: Option<Vec<usize>>,
        stats: Arc<SourceStats>,
        view: bool,
    ) -> Self {
        let full = crate::data::schema_for(view);
        let schema = match &projection {
            Some(p) => Arc::new(full.project(p).expect("projection")),
            None => full,
        };
        let mut eq = EquivalenceProperties::new(Arc::clone(&schema));
        if let Some(o) = ordering {
            eq.add_ordering(o);
        }
        let props = PlanProperties::new(
            eq,
            Partitioning::UnknownPartitioning(scripts.len()),
            EmissionType::Incremental,
            if unbounded { Boundedness::Unbounded { requires_infinite_memory: false } } else { Boundedness::Bounded },
        );
        SimSourceExec { name: name.to_string(), schema, scripts, props: Arc::new(props), stats, projection, accept_filters: false, filters: vec![], view, cooperative: false }
    }
    pub fn with_accept_filters(mut self, yes: bool) -> Self {
        self.accept_filters = yes;
        self
    }
    pub fn live_streams(&self) -> i64 {
        self.stats.live_streams.load(Ordering::Relaxed)
    }
}

impl DisplayAs for SimSourceExec {
    fn fmt_as(&self, _t: DisplayFormatType, f: &mut fmt::Formatter) -> fmt::Result {
        write!(f, "SimSourceExec: {} partitions={}", self.name, self.scripts.len())
    }
}

impl ExecutionPlan for SimSourceExec {
    fn name(&self) -> &str {
        "SimSourceExec"
    }
    fn properties(&self) -> &Arc<PlanProperties> {
        &self.props
    }
    fn children(&self) -> Vec<&Arc<dyn ExecutionPlan>> {
        vec![]
    }
    fn replace_children(
        self: Arc<Self>,
        _children: Vec<Arc<dyn ExecutionPlan>>,
        _options: ReplaceChildrenOptions,
    ) -> Result<Arc<dyn ExecutionPlan>> {
        Ok(self)
    }
    fn apply_expressions(
        &self,
        _f: &mut dyn FnMut(&Arc<dyn PhysicalExpr>) -> Result<TreeNodeRecursion>,
    ) -> Result<TreeNodeRecursion> {
        Ok(TreeNodeRecursion::Continue)
    }
    #[allow(deprecated)]
    fn with_new_children(self: Arc<Self>, _children: Vec<Arc<dyn ExecutionPlan>>) -> Result<Arc<dyn ExecutionPlan>> {
        Ok(self)
    }
    fn handle_child_pushdown_result(
        &self,
        _phase: FilterPushdownPhase,
        child_pushdown_result: ChildPushdownResult,
        _config: &ConfigOptions,
    ) -> Result<FilterPushdownPropagation<Arc<dyn ExecutionPlan>>> {
        if !self.accept_filters || child_pushdown_result.parent_filters.is_empty() {
            return Ok(FilterPushdownPropagation::all_unsupported(child_pushdown_result));
        }
        let mut new = self.clone();
        let n = child_pushdown_result.parent_filters.len();
        for f in child_pushdown_result.parent_filters {
            new.filters.push(f.filter);
        }
        self.stats.filters_accepted.fetch_add(n as u64, Ordering::Relaxed);
        Ok(FilterPushdownPropagation { filters: vec![PushedDown::Yes; n], updated_node: Some(Arc::new(new)) })
    }
    fn execute(&self, partition: usize, _context: Arc<TaskContext>) -> Result<SendableRecordBatchStream> {
        self.stats.live_streams.fetch_add(1, Ordering::Relaxed);
        self.stats.streams_opened.fetch_add(1, Ordering::Relaxed);
        let stream: SendableRecordBatchStream = Box::pin(ScriptStream::new(
            Arc::clone(&self.schema),
            self.scripts[partition].clone(),
            partition,
            Arc::clone(&self.stats),
            self.projection.clone(),
            self.filters.clone(),
            self.view,
        ));
        Ok(if self.cooperative { datafusion_physical_plan::coop::make_cooperative(stream) } else { stream })
    }
}

pub struct ScriptStream {
    schema: SchemaRef,
    script: std::vec::IntoIter<Step>,
    part: usize,
    stats: Arc<SourceStats>,
    sleeping: Option<Pin<Box<tokio::time::Sleep>>>,
    stalled: bool,
    done: bool,
    projection: Option<Vec<usize>>,
    filters: Vec<Arc<dyn PhysicalExpr>>,
    endless: Option<Vec<crate::data::Row>>,
    filler: Option<(i64, i64, u64, i64)>,
    last_step: u64,
    in_step: u64,
    view: bool,
}

/// An always-ready input may be pulled at most this often inside one task poll before the
/// simulator declares that the runtime is being starved (tokio's cooperative budget is 128).
pub const MAX_BATCHES_PER_POLL: u64 = 2_000;
/// Total cap of an "endless" input: a safety net so that a task that is never cancelled cannot
/// hang the harness.
pub const ENDLESS_TOTAL_CAP: u64 = 150_000;

impl ScriptStream {
    pub fn new(
        schema: SchemaRef,
        script: Vec<Step>,
        part: usize,
        stats: Arc<SourceStats>,
        projection: Option<Vec<usize>>,
        filters: Vec<Arc<dyn PhysicalExpr>>,
        view: bool,
    ) -> Self {
        ScriptStream { schema, script: script.into_iter(), part, stats, sleeping: None, stalled: false, done: false, projection, filters, endless: None, filler: None, last_step: 0, in_step: 0, view }
    }
}

impl Drop for ScriptStream {
    fn drop(&mut self) {
        self.stats.live_streams.fetch_sub(1, Ordering::Relaxed);
    }
}

impl Stream for ScriptStream {
    type Item = Result<RecordBatch>;
    fn poll_next(mut self: Pin<&mut Self>, cx: &mut Context<'_>) -> Poll<Option<Self::Item>> {
        self.stats.polls.fetch_add(1, Ordering::Relaxed);
        loop {
            if self.done {
                return Poll::Ready(None);
            }
            if self.stalled {
                return Poll::Pending;
            }
            if let Some(s) = self.sleeping.as_mut() {
                match s.as_mut().poll(cx) {
                    Poll::Pending => return Poll::Pending,
                    Poll::Ready(()) => self.sleeping = None,
                }
            }
            if self.filler.is_some() && self.stats.pause_fillers.load(Ordering::Relaxed) {
                // (no waker is kept: nothing will ever resume this input)
                return Poll::Pending;
            }
            if let Some((base, stride, n, counter)) = self.filler {
                // fresh rows with ever increasing keys: the input "continues"
                let rows: Vec<crate::data::Row> = (0..n as i64)
                    .map(|i| crate::data::Row {
                        id: crate::data::FILLER_ID_BASE + self.part as i64 * 100_000 + counter + i,
                        k: Some((base + stride * (counter + i)) as i32),
                        s: Some("FILL".to_string()),
                        // two thirds of the filler rows (pseudo-randomly, so that no partitioning can
                        // align with the pattern) carry a large value, so that filters and other
                        // value-dependent paths keep seeing traffic on every partition
                        v: if dst_common::rng::splitmix(17, (counter + i) as u64) % 3 != 0 { Some(1_000_000 + counter + i) } else { None },
                    })
                    .collect();
                self.filler = Some((base, stride, n, counter + n as i64));
                self.endless = Some(rows);
                // fall through to the endless branch below for this one batch, then come back here
            }
            if let Some(rows) = self.endless.clone() {
                if self.filler.is_some() {
                    self.endless = None;
                }
                let now = sim::steps();
                if now != self.last_step {
                    self.last_step = now;
                    self.in_step = 0;
                }
                self.in_step += 1;
                sim::probe_max("max.endless_batches_in_one_poll", self.in_step);
                let total = self.stats.batches.fetch_add(1, Ordering::Relaxed) + 1;
                if self.in_step > MAX_BATCHES_PER_POLL {
                    sim::request_abort(
                        "runtime-starved",
                        format!("a task pulled {} batches from an always-ready input inside one poll without yielding to the runtime (partition {})", self.in_step, self.part),
                    );
                    self.done = true;
                    return Poll::Ready(None);
                }
                if total > ENDLESS_TOTAL_CAP {
                    sim::request_abort(
                        "not-cancelled",
                        format!("an endless input was still being pulled after {total} batches: the query was dropped but its work goes on"),
                    );
                    self.done = true;
                    return Poll::Ready(None);
                }
                let mut b = crate::data::rows_to_batch_for(&rows, self.view);
                if let Some(p) = &self.projection {
                    b = if p.is_empty() {
                        RecordBatch::try_new_with_options(
                            Arc::clone(&self.schema),
                            vec![],
                            &arrow::record_batch::RecordBatchOptions::new().with_row_count(Some(rows.len())),
                        )?
                    } else {
                        b.project(p)?
                    };
                }
                return Poll::Ready(Some(Ok(b)));
            }
            match self.script.next() {
                Some(Step::Endless(rows)) => {
                    sim::probe("probe.endless_input_started");
                    self.endless = Some(rows);
                    continue;
                }
                Some(Step::Filler { base, stride, rows }) => {
                    sim::probe("probe.endless_input_started");
                    self.filler = Some((base, stride, rows, 0));
                    continue;
                }
                None => {
                    self.done = true;
                    self.stats.finished.fetch_add(1, Ordering::Relaxed);
                    return Poll::Ready(None);
                }
                Some(Step::Batch(rows)) => {
                    self.stats.batches.fetch_add(1, Ordering::Relaxed);
                    self.stats.rows.fetch_add(rows.len() as u64, Ordering::Relaxed);
                    sim::trace_event("src_batch", self.part as u64);
                    let mut b = crate::data::rows_to_batch_for(&rows, self.view);
                    if let Some(p) = &self.projection {
                        b = if p.is_empty() {
                            RecordBatch::try_new_with_options(
                                Arc::clone(&self.schema),
                                vec![],
                                &arrow::record_batch::RecordBatchOptions::new().with_row_count(Some(rows.len())),
                            )?
                        } else {
                            b.project(p)?
                        };
                    }
                    // pushed-down filters (static and dynamic) are evaluated afresh on every batch:
                    // a dynamic filter shows whatever its producer has published by now
                    for f in &self.filters {
                        let before = b.num_rows();
                        let mask = f.evaluate(&b)?.into_array(before)?;
                        let mask = arrow::array::as_boolean_array(&mask);
                        b = arrow::compute::filter_record_batch(&b, mask)?;
                        let pruned = (before - b.num_rows()) as u64;
                        if pruned > 0 {
                            self.stats.rows_pruned.fetch_add(pruned, Ordering::Relaxed);
                            sim::probe_n("probe.rows_pruned_by_pushed_filter", pruned);
                        }
                    }
                    return Poll::Ready(Some(Ok(b)));
                }
                Some(Step::Pending) => {
                    sim::probe("probe.source_pending");
                    cx.waker().wake_by_ref();
                    return Poll::Pending;
                }
                Some(Step::Delay(ms)) => {
                    sim::probe("probe.source_delay");
                    self.sleeping = Some(Box::pin(tokio::time::sleep(std::time::Duration::from_millis(ms))));
                }
                Some(Step::Error) => {
                    self.done = true;
                    self.stats.errors_pulled.fetch_add(1, Ordering::Relaxed);
                    sim::probe("fault.source_error");
                    sim::trace_event("src_error", self.part as u64);
                    return Poll::Ready(Some(Err(DataFusionError::Execution(format!(
                        "simulated source error in partition {}",
                        self.part
                    )))));
                }
                Some(Step::Panic) => {
                    sim::probe("fault.source_panic");
                    sim::trace_event("src_panic", self.part as u64);
                    panic!("simulated source panic in partition {}", self.part);
                }
                Some(Step::Stall) => {
                    sim::probe("fault.source_stall");
                    self.stalled = true;
                }
            }
        }
    }
}

impl RecordBatchStream for ScriptStream {
    fn schema(&self) -> SchemaRef {
        Arc::clone(&self.schema)
    }
}
