//! C05 at operator level: join operators the SQL planner does not pick for bounded inputs.
//! `c05-shj`: SymmetricHashJoinExec over two *bounded* scripted inputs (every join type, NULL-equal or
//! not, optional sliding-window filter on the sorted key with pruning enabled, single-partition and
//! hash-partitioned modes). The operator is symmetric: what it emits and prunes depends on the
//! order in which the two sides deliver, which is exactly what the seeded scheduler and the
//! Pending/delay steps of the inputs vary.

use crate::data::{Row, TableGen, all_rows, parse_table};
use crate::envutil::{EnvSpec, consume_partitions};
use crate::runner::{Outcome, RunFuture, Scenario, violation};
use crate::sim;
use crate::source::SimSourceExec;
use arrow::array::{Array, Int64Array};
use arrow::compute::SortOptions;
use arrow::datatypes::{DataType, Field, Schema};
use datafusion_common::{JoinSide, JoinType, NullEquality};
use datafusion_expr::Operator;
use datafusion_physical_expr::expressions::{BinaryExpr, Column, col, lit};
use datafusion_physical_expr::{LexOrdering, Partitioning, PhysicalExpr, PhysicalSortExpr};
use datafusion_physical_plan::ExecutionPlan;
use datafusion_physical_plan::joins::utils::{ColumnIndex, JoinFilter};
use datafusion_physical_plan::joins::{StreamJoinPartitionMode, SymmetricHashJoinExec};
use datafusion_physical_plan::repartition::RepartitionExec;
use dst_common::Tier;
use dst_common::rng::Rng;
use serde_json::{Value, json};
use std::sync::Arc;

pub struct SymmetricHashJoin;

const JTS: &[&str] = &["inner", "left", "right", "full", "semi", "anti", "rsemi", "ranti"];

fn join_type(jt: &str) -> Option<JoinType> {
    Some(match jt {
        "inner" => JoinType::Inner,
        "left" => JoinType::Left,
        "right" => JoinType::Right,
        "full" => JoinType::Full,
        "semi" => JoinType::LeftSemi,
        "anti" => JoinType::LeftAnti,
        "rsemi" => JoinType::RightSemi,
        "ranti" => JoinType::RightAnti,
        _ => return None,
    })
}

impl Scenario for SymmetricHashJoin {
    fn name(&self) -> &'static str {
        "c05-shj"
    }
    fn generate(&self, rng: &mut Rng, tier: Tier) -> Value {
        let big = tier == Tier::Thorough;
        let partitioned = rng.chance(1, 2);
        let tg = TableGen {
            parts: if partitioned { (1, 3) } else { (1, 1) },
            batches: (0, if big { 6 } else { 4 }),
            rows: (0, if big { 12 } else { 6 }),
            key_domain: *rng.pick(&[3i64, 6, 12]),
            sorted_by_k: true,
            pending_pct: 35,
            delay_pct: 20,
            ..Default::default()
        };
        json!({
            "a": tg.generate(rng),
            "b": tg.generate(rng),
            "jt": *rng.pick(JTS),
            "nulleq": rng.chance(1, 4),
            // sliding window on the sorted key: |a.k - b.k| <= w (enables pruning of both sides)
            "window": if rng.chance(2, 3) { json!(rng.range(0, 3)) } else { Value::Null },
            "declare_sorted": rng.chance(3, 4),
            "partitioned": partitioned,
            "outputs": rng.range(1, 4),
            "env": EnvSpec::generate(rng, false),
        })
    }
    fn run(&self, case: Value) -> RunFuture {
        Box::pin(async move { run(case).await })
    }
}

fn sorted_by_k(t: &[Vec<crate::data::Step>]) -> bool {
    for p in t {
        let mut last: Option<Option<i32>> = None;
        for st in p {
            if let crate::data::Step::Batch(rs) = st {
                for r in rs {
                    if last.is_some_and(|l| r.k < l) {
                        return false;
                    }
                    last = Some(r.k);
                }
            }
        }
    }
    true
}

async fn run(case: Value) -> Outcome {
    let Some(ta) = parse_table(&case["a"]) else { return Outcome::Invalid };
    let Some(tb) = parse_table(&case["b"]) else { return Outcome::Invalid };
    let Some(env) = EnvSpec::parse(&case["env"]) else { return Outcome::Invalid };
    let Some(jt_s) = case["jt"].as_str() else { return Outcome::Invalid };
    let Some(jt) = join_type(jt_s) else { return Outcome::Invalid };
    let nulleq = case["nulleq"].as_bool().unwrap_or(false);
    let window: Option<i64> = case["window"].as_i64().filter(|w| (0..=100).contains(w));
    let declare = case["declare_sorted"].as_bool().unwrap_or(true);
    let partitioned = case["partitioned"].as_bool().unwrap_or(false);
    let outputs = case["outputs"].as_u64().unwrap_or(1).clamp(1, 8) as usize;
    if declare && !(sorted_by_k(&ta) && sorted_by_k(&tb)) {
        return Outcome::Invalid;
    }
    if !partitioned && (ta.len() != 1 || tb.len() != 1) {
        return Outcome::Invalid;
    }
    let a_rows = all_rows(&ta);
    let b_rows = all_rows(&tb);
    let ctx = env.build();
    let schema = crate::data::table_schema();
    let order = |_side: &str| {
        LexOrdering::new(vec![PhysicalSortExpr::new(col("k", &schema).unwrap(), SortOptions { descending: false, nulls_first: true })])
    };
    let src_a = Arc::new(SimSourceExec::with_ordering("a", ta, if declare { order("a") } else { None }, false));
    let src_b = Arc::new(SimSourceExec::with_ordering("b", tb, if declare { order("b") } else { None }, false));
    let (mut left, mut right): (Arc<dyn ExecutionPlan>, Arc<dyn ExecutionPlan>) = (src_a.clone(), src_b.clone());
    let mode = if partitioned {
        for side in [&mut left, &mut right] {
            let rp = match RepartitionExec::try_new(Arc::clone(side), Partitioning::Hash(vec![col("s", &schema).unwrap()], outputs)) {
                Ok(r) => r,
                Err(e) => return violation("plan-error", format!("{e}")),
            };
            *side = Arc::new(if declare { rp.with_preserve_order() } else { rp });
        }
        StreamJoinPartitionMode::Partitioned
    } else {
        StreamJoinPartitionMode::SinglePartition
    };
    let on: Vec<(Arc<dyn PhysicalExpr>, Arc<dyn PhysicalExpr>)> = vec![(col("s", &schema).unwrap(), col("s", &schema).unwrap())];
    let filter = window.map(|w| {
        let fs = Arc::new(Schema::new(vec![Field::new("ak", DataType::Int32, true), Field::new("bk", DataType::Int32, true)]));
        let ak: Arc<dyn PhysicalExpr> = Arc::new(Column::new("ak", 0));
        let bk: Arc<dyn PhysicalExpr> = Arc::new(Column::new("bk", 1));
        let w32 = lit(w as i32);
        // a.k <= b.k + w AND b.k <= a.k + w
        let c1: Arc<dyn PhysicalExpr> = Arc::new(BinaryExpr::new(Arc::clone(&ak), Operator::LtEq, Arc::new(BinaryExpr::new(Arc::clone(&bk), Operator::Plus, Arc::clone(&w32)))));
        let c2: Arc<dyn PhysicalExpr> = Arc::new(BinaryExpr::new(Arc::clone(&bk), Operator::LtEq, Arc::new(BinaryExpr::new(Arc::clone(&ak), Operator::Plus, Arc::clone(&w32)))));
        let e: Arc<dyn PhysicalExpr> = Arc::new(BinaryExpr::new(c1, Operator::And, c2));
        JoinFilter::new(e, vec![ColumnIndex { index: 1, side: JoinSide::Left }, ColumnIndex { index: 1, side: JoinSide::Right }], fs)
    });
    let join = match SymmetricHashJoinExec::try_new(
        left,
        right,
        on,
        filter,
        &jt,
        if nulleq { NullEquality::NullEqualsNull } else { NullEquality::NullEqualsNothing },
        if declare { order("a") } else { None },
        if declare { order("b") } else { None },
        mode,
    ) {
        Ok(j) => j,
        Err(e) => return violation("plan-error", format!("SymmetricHashJoinExec::try_new: {e}")),
    };
    let plan: Arc<dyn ExecutionPlan> = Arc::new(join);
    let n_out = plan.properties().partitioning.partition_count();
    let results = consume_partitions(&plan, &ctx.task, &vec![None; n_out]).await;
    drop(plan);
    tokio::time::sleep(std::time::Duration::from_secs(3600)).await;

    // reference
    let matches = |x: &Row, y: &Row| -> bool {
        let s_eq = match (&x.s, &y.s) {
            (Some(p), Some(q)) => p == q,
            (None, None) => nulleq,
            _ => false,
        };
        let f = match window {
            None => true,
            Some(w) => matches!((x.k, y.k), (Some(p), Some(q)) if (p as i64) <= q as i64 + w && (q as i64) <= p as i64 + w),
        };
        s_eq && f
    };
    let mut expected = crate::queries::join_reference(&a_rows, &b_rows, jt_s, matches);
    let two_sided = matches!(jt_s, "inner" | "left" | "right" | "full");
    let mut got: Vec<Vec<Option<String>>> = vec![];
    for (p, r) in results.iter().enumerate() {
        match r {
            Err(e) => return violation("unexpected-error", format!("partition {p} failed: {e}")),
            Ok(batches) => {
                for b in batches {
                    let id_cols: Vec<usize> = if two_sided { vec![0, 4] } else { vec![0] };
                    if b.num_columns() <= *id_cols.last().unwrap() {
                        return violation("schema", format!("join output has {} columns", b.num_columns()));
                    }
                    for r in 0..b.num_rows() {
                        let mut row = vec![];
                        for c in &id_cols {
                            let Some(a) = b.column(*c).as_any().downcast_ref::<Int64Array>() else { return violation("schema", "id column is not Int64".into()) };
                            row.push(if a.is_null(r) { None } else { Some(a.value(r).to_string()) });
                        }
                        got.push(row);
                    }
                }
            }
        }
    }
    got.sort();
    expected.sort();
    if got != expected {
        let missing = expected.iter().find(|r| expected.iter().filter(|x| x == r).count() > got.iter().filter(|x| x == r).count());
        let extra = got.iter().find(|r| got.iter().filter(|x| x == r).count() > expected.iter().filter(|x| x == r).count());
        return violation(
            "wrong-result",
            format!("SymmetricHashJoinExec {jt_s} (window {window:?}, null-equal {nulleq}, sorted {declare}, partitioned {partitioned}): {} rows vs {} expected; missing {missing:?}; unexpected {extra:?}", got.len(), expected.len()),
        );
    }
    sim::probe("probe.result_matched");
    if window.is_some() && declare {
        sim::probe("probe.shj_pruning_enabled");
    }
    if let Some(v) = ctx.quiescence_violation(&[&src_a, &src_b]) {
        return v;
    }
    Outcome::Pass
}
