//! C21 — spill files round-trip exactly; disk usage accounting stays exact.
//! (a) round trip through the real SpillManager / IPC writer / SpillReaderStream on SimDisk (chunked,
//!     Pending-injecting reads) for a mixed-type schema, codecs and read-buffer capacities;
//! (b) histories of create/write/finish/clone/drop/limit-change on the REAL DiskManager and real
//!     temp files, with write failures from a per-process RLIMIT_FSIZE (EFBIG) and from the
//!     configured limit; byte-exact model of acknowledged writes.

use crate::envutil::EnvSpec;
use crate::runner::{Check, Outcome, RunFuture, Scenario, violation};
use crate::sim;
use arrow::array::{
    Array, ArrayRef, BinaryArray, DictionaryArray, Int32Array, Int64Array, ListArray, RecordBatch, StringArray, StringViewArray,
    StructArray,
};
use arrow::buffer::OffsetBuffer;
use arrow::datatypes::{DataType, Field, Fields, Int32Type, Schema, SchemaRef};
use datafusion_common::config::SpillCompression;
use datafusion_execution::disk_manager::{DiskManager, DiskManagerBuilder, DiskManagerMode};
use datafusion_execution::{SpillFile, SpillWriter};
use datafusion_physical_plan::metrics::{ExecutionPlanMetricsSet, SpillMetrics};
use datafusion_physical_plan::spill::SpillManager;
use dst_common::Tier;
use dst_common::rng::Rng;
use futures::StreamExt;
use serde_json::{Value, json};
use std::io::Write;
use std::sync::Arc;

fn mixed_schema() -> SchemaRef {
    let struct_fields = Fields::from(vec![Field::new("a", DataType::Int32, true), Field::new("b", DataType::Utf8, true)]);
    Arc::new(Schema::new(vec![
        Field::new("i", DataType::Int64, true),
        Field::new("s", DataType::Utf8, true),
        Field::new("sv", DataType::Utf8View, true),
        Field::new("bin", DataType::Binary, true),
        Field::new("d", DataType::Dictionary(Box::new(DataType::Int32), Box::new(DataType::Utf8)), true),
        Field::new("l", DataType::List(Arc::new(Field::new("item", DataType::Int32, true))), true),
        Field::new("st", DataType::Struct(struct_fields), true),
    ]))
}

fn mixed_batch(seed: u64, rows: usize) -> RecordBatch {
    let mut r = Rng::new(seed);
    let null = |r: &mut Rng| r.chance(1, 6);
    let i: Vec<Option<i64>> = (0..rows).map(|_| if null(&mut r) { None } else { Some(r.next() as i64 >> 20) }).collect();
    let s: Vec<Option<String>> = (0..rows).map(|_| if null(&mut r) { None } else { Some("s".repeat(r.below(9) as usize)) }).collect();
    // views: short (inlined, <= 12 bytes) and long (buffer-backed) strings
    let sv: Vec<Option<String>> = (0..rows)
        .map(|k| if null(&mut r) { None } else if r.chance(1, 2) { Some(format!("v{k}")) } else { Some(format!("long-view-string-{k}-{}", "x".repeat(r.below(40) as usize))) })
        .collect();
    let bin: Vec<Option<Vec<u8>>> = (0..rows).map(|_| if null(&mut r) { None } else { Some((0..r.below(6)).map(|x| x as u8).collect()) }).collect();
    let d: Vec<Option<&str>> = (0..rows).map(|_| if null(&mut r) { None } else { Some(["red", "green", "blue"][r.below(3) as usize]) }).collect();
    let mut offsets = vec![0i32];
    let mut items: Vec<Option<i32>> = vec![];
    let mut lvalid = vec![];
    for _ in 0..rows {
        let n = r.below(4) as usize;
        for _ in 0..n {
            items.push(if null(&mut r) { None } else { Some(r.below(100) as i32) });
        }
        offsets.push(items.len() as i32);
        lvalid.push(!null(&mut r));
    }
    let list = ListArray::new(
        Arc::new(Field::new("item", DataType::Int32, true)),
        OffsetBuffer::new(offsets.into()),
        Arc::new(Int32Array::from(items)),
        Some(lvalid.into()),
    );
    let sa: Vec<Option<i32>> = (0..rows).map(|_| if null(&mut r) { None } else { Some(r.below(50) as i32) }).collect();
    let sb: Vec<Option<String>> = (0..rows).map(|k| if null(&mut r) { None } else { Some(format!("b{k}")) }).collect();
    let st = StructArray::new(
        Fields::from(vec![Field::new("a", DataType::Int32, true), Field::new("b", DataType::Utf8, true)]),
        vec![Arc::new(Int32Array::from(sa)) as ArrayRef, Arc::new(StringArray::from(sb)) as ArrayRef],
        None,
    );
    let dict: DictionaryArray<Int32Type> = d.into_iter().collect();
    RecordBatch::try_new(
        mixed_schema(),
        vec![
            Arc::new(Int64Array::from(i)),
            Arc::new(StringArray::from(s)),
            Arc::new(StringViewArray::from(sv)),
            Arc::new(BinaryArray::from_iter(bin.iter().map(|x| x.as_deref()))),
            Arc::new(dict),
            Arc::new(list),
            Arc::new(st),
        ],
    )
    .unwrap()
}

// ---------------------------------------------------------------------------------------
pub struct RoundTrip;

impl Scenario for RoundTrip {
    fn name(&self) -> &'static str {
        "c21-roundtrip"
    }
    fn generate(&self, rng: &mut Rng, _tier: Tier) -> Value {
        let n = rng.range(0, 5);
        let batches: Vec<Value> = (0..n)
            .map(|_| {
                let rows = rng.range(0, 20);
                let slice = if rows > 1 && rng.chance(1, 3) {
                    let off = rng.below(rows);
                    json!([off, rng.range(0, rows - off)])
                } else {
                    Value::Null
                };
                json!({"rows": rows, "slice": slice})
            })
            .collect();
        let mut env = EnvSpec::generate(rng, false);
        env["disk"] = json!({"read_chunk": *rng.pick(&[0u64, 1, 7, 64, 1000]), "pending_every": *rng.pick(&[0u64, 1, 2, 5]), "faults": []});
        json!({
            "data_seed": rng.next() >> 16,
            "batches": batches,
            "incremental": rng.chance(1, 2),
            "buffer": rng.range(1, 4),
            "env": env,
        })
    }
    fn run(&self, case: Value) -> RunFuture {
        Box::pin(async move { roundtrip(case).await })
    }
}

async fn roundtrip(case: Value) -> Outcome {
    let Some(env) = EnvSpec::parse(&case["env"]) else { return Outcome::Invalid };
    let Some(specs) = case["batches"].as_array() else { return Outcome::Invalid };
    if specs.len() > 16 {
        return Outcome::Invalid;
    }
    let seed = case["data_seed"].as_u64().unwrap_or(1);
    let mut written = vec![];
    for (k, b) in specs.iter().enumerate() {
        let rows = b["rows"].as_u64().unwrap_or(0).min(200) as usize;
        let mut batch = mixed_batch(seed.wrapping_add(k as u64 * 7919), rows);
        if let Some(s) = b["slice"].as_array() {
            let off = (s.first().and_then(|x| x.as_u64()).unwrap_or(0) as usize).min(rows);
            let len = (s.get(1).and_then(|x| x.as_u64()).unwrap_or(0) as usize).min(rows - off);
            batch = batch.slice(off, len);
        }
        written.push(batch);
    }
    let cx = env.build();
    let compression = match env.compression.as_str() {
        "lz4_frame" => SpillCompression::Lz4Frame,
        "zstd" => SpillCompression::Zstd,
        _ => SpillCompression::Uncompressed,
    };
    let metrics = SpillMetrics::new(&ExecutionPlanMetricsSet::new(), 0);
    let buffer = case["buffer"].as_u64().unwrap_or(2).clamp(1, 8) as usize;
    let sm = SpillManager::new(cx.runtime.clone(), metrics, mixed_schema())
        .with_compression_type(compression)
        .with_batch_read_buffer_capacity(buffer);
    let file = if case["incremental"].as_bool().unwrap_or(false) {
        let mut f = match sm.create_in_progress_file("c21") {
            Ok(f) => f,
            Err(e) => return violation("unexpected-error", format!("create failed: {e}")),
        };
        for b in &written {
            if let Err(e) = f.append_batch(b) {
                return violation("unexpected-error", format!("append failed: {e}"));
            }
        }
        match f.finish() {
            Ok(x) => x,
            Err(e) => return violation("unexpected-error", format!("finish failed: {e}")),
        }
    } else {
        match sm.spill_record_batch_and_finish(&written, "c21") {
            Ok(x) => x,
            Err(e) => return violation("unexpected-error", format!("spill failed: {e}")),
        }
    };
    let mut read = vec![];
    if let Some(file) = file {
        let mut s = match sm.read_spill_as_stream(file, None) {
            Ok(s) => s,
            Err(e) => return violation("unexpected-error", format!("open for read failed: {e}")),
        };
        while let Some(b) = s.next().await {
            match b {
                Ok(b) => read.push(b),
                Err(e) => return violation("unexpected-error", format!("read failed: {e}")),
            }
        }
    } else if !written.is_empty() {
        return violation("lost-batches", format!("{} batches were spilled but no file was returned", written.len()));
    }
    // empty batches may be skipped by the writer; everything else must come back in order
    let w: Vec<&RecordBatch> = written.iter().filter(|b| b.num_rows() > 0).collect();
    let r: Vec<&RecordBatch> = read.iter().filter(|b| b.num_rows() > 0).collect();
    if w.len() != r.len() {
        return violation("batch-count-mismatch", format!("{} non-empty batches written, {} read back", w.len(), r.len()));
    }
    for (k, (a, b)) in w.iter().zip(r.iter()).enumerate() {
        if a.schema() != b.schema() {
            return violation("schema-mismatch", format!("batch {k}: schema changed in the round trip"));
        }
        if a != b {
            let col = (0..a.num_columns()).find(|c| a.column(*c) != b.column(*c)).unwrap_or(0);
            return violation("value-mismatch", format!("batch {k}: column {} ({}) differs after the round trip", col, a.schema().field(col).name()));
        }
    }
    sim::probe_n("probe.roundtrip_batches", w.len() as u64);
    sim::probe(&format!("probe.codec_{}", env.compression));
    drop(read);
    drop(sm);
    tokio::time::sleep(std::time::Duration::from_secs(60)).await;
    if let Some(v) = cx.quiescence_violation_stats(&[]) {
        return v;
    }
    Outcome::Pass
}

// ---------------------------------------------------------------------------------------
pub struct Accounting;

fn set_fsize_limit(bytes: Option<u64>) {
    unsafe {
        // EFBIG instead of a fatal SIGXFSZ
        libc::signal(libc::SIGXFSZ, libc::SIG_IGN);
        let mut cur = libc::rlimit { rlim_cur: 0, rlim_max: 0 };
        libc::getrlimit(libc::RLIMIT_FSIZE, &mut cur);
        let new = libc::rlimit { rlim_cur: bytes.map(|b| b as libc::rlim_t).unwrap_or(cur.rlim_max), rlim_max: cur.rlim_max };
        libc::setrlimit(libc::RLIMIT_FSIZE, &new);
    }
}

impl Scenario for Accounting {
    fn name(&self) -> &'static str {
        "c21-accounting"
    }
    fn weight(&self) -> u64 {
        2
    }
    fn generate(&self, rng: &mut Rng, _tier: Tier) -> Value {
        let n = rng.range(2, 14);
        let mut ops = vec![json!({"op": "create"})];
        for _ in 0..n {
            let op = *rng.pick(&["create", "write", "write", "write", "write", "finish", "clone", "drop", "drop_all", "set_limit"]);
            ops.push(match op {
                "write" => json!({"op": op, "f": rng.below(4), "n": *rng.pick(&[0u64, 1, 10, 100, 1000, 4000])}),
                "set_limit" => json!({"op": op, "n": *rng.pick(&[0u64, 50, 500, 5000, 1_000_000])}),
                "create" => json!({"op": op}),
                _ => json!({"op": op, "f": rng.below(4)}),
            });
        }
        json!({
            "limit": if rng.chance(1, 2) { json!(*rng.pick(&[100u64, 1000, 5000])) } else { Value::Null },
            // per-file size at which the OS starts failing writes (RLIMIT_FSIZE)
            "fsize": if rng.chance(1, 2) { json!(*rng.pick(&[1u64, 50, 150, 1500, 3000])) } else { Value::Null },
            "ops": ops,
        })
    }
    fn run(&self, case: Value) -> RunFuture {
        Box::pin(async move {
            let r = accounting(&case);
            set_fsize_limit(None);
            r
        })
    }
}

struct FileState {
    handles: Vec<Arc<dyn SpillFile>>,
    writer: Option<Box<dyn SpillWriter>>,
    acked: u64,
    path: std::path::PathBuf,
}

fn accounting(case: &Value) -> Outcome {
    let Some(ops) = case["ops"].as_array() else { return Outcome::Invalid };
    if ops.len() > 40 {
        return Outcome::Invalid;
    }
    let mut b = DiskManagerBuilder::default().with_mode(DiskManagerMode::OsTmpDirectory);
    if let Some(l) = case["limit"].as_u64() {
        b = b.with_max_temp_directory_size(l);
    }
    let dm: Arc<DiskManager> = match b.build() {
        Ok(d) => Arc::new(d),
        Err(e) => return violation("unexpected-error", format!("DiskManager build failed: {e}")),
    };
    let fsize = case["fsize"].as_u64();
    let mut files: Vec<FileState> = vec![];
    let mut any_os_failure = false;
    let check = |files: &Vec<FileState>, step: usize, what: &str, dm: &DiskManager| -> Option<Outcome> {
        let model: u64 = files.iter().filter(|f| !f.handles.is_empty()).map(|f| f.acked).sum();
        let got = dm.used_disk_space();
        if got != model {
            return Some(violation(
                "disk-usage-mismatch",
                format!("step {step} ({what}): used_disk_space()={got} but live spill files hold {model} acknowledged bytes"),
            ));
        }
        None
    };
    for (step, o) in ops.iter().enumerate() {
        let op = o["op"].as_str().unwrap_or("");
        let idx = |files: &Vec<FileState>| -> Option<usize> {
            if files.is_empty() { None } else { Some(o["f"].as_u64().unwrap_or(0) as usize % files.len()) }
        };
        match op {
            "create" => {
                if files.len() >= 6 {
                    continue;
                }
                match dm.create_tmp_file("c21") {
                    Ok(f) => {
                        let path = f.path().map(|p| p.to_path_buf()).unwrap_or_default();
                        files.push(FileState { handles: vec![f], writer: None, acked: 0, path })
                    }
                    Err(e) => return violation("unexpected-error", format!("create_tmp_file failed: {e}")),
                }
            }
            "write" => {
                let Some(i) = idx(&files) else { continue };
                if files[i].handles.is_empty() {
                    continue;
                }
                let n = o["n"].as_u64().unwrap_or(0).min(1 << 20) as usize;
                if files[i].writer.is_none() {
                    match files[i].handles[0].open_writer() {
                        Ok(w) => files[i].writer = Some(w),
                        Err(e) => return violation("unexpected-error", format!("open_writer failed: {e}")),
                    }
                }
                let before = dm.used_disk_space();
                let limit = dm.max_temp_directory_size();
                set_fsize_limit(fsize);
                let res = files[i].writer.as_mut().unwrap().write_all(&vec![0xABu8; n]);
                set_fsize_limit(None);
                match res {
                    Ok(()) => {
                        files[i].acked += n as u64;
                        sim::probe("probe.write_acknowledged");
                        if before + n as u64 > limit && n > 0 {
                            return violation("limit-exceeded", format!("step {step}: write of {n} bytes admitted with {before} used and limit {limit}"));
                        }
                    }
                    Err(e) => {
                        let text = e.to_string();
                        if text.contains("exceeded the allowable limit") {
                            sim::probe("fault.disk_limit_rejected");
                            if before + n as u64 <= limit {
                                return violation("spurious-limit-error", format!("step {step}: write of {n} bytes rejected with {before} used and limit {limit}"));
                            }
                        } else {
                            sim::probe("fault.os_write_error_EFBIG");
                            sim::set_tag("after-os-write-error");
                            any_os_failure = true;
                            // a failed writer is not used again (its file position is undefined)
                            files[i].writer = None;
                        }
                    }
                }
            }
            "finish" => {
                let Some(i) = idx(&files) else { continue };
                if let Some(mut w) = files[i].writer.take() {
                    let _ = w.finish();
                }
            }
            "clone" => {
                let Some(i) = idx(&files) else { continue };
                if let Some(h) = files[i].handles.first().cloned() {
                    files[i].handles.push(h);
                }
            }
            "drop" => {
                let Some(i) = idx(&files) else { continue };
                if files[i].handles.len() == 1 {
                    files[i].writer = None;
                }
                files[i].handles.pop();
                if files[i].handles.is_empty() && files[i].path.exists() {
                    return violation("temp-file-not-deleted", format!("step {step}: {} still exists after its last handle was dropped", files[i].path.display()));
                }
            }
            "drop_all" => {
                let Some(i) = idx(&files) else { continue };
                files[i].writer = None;
                files[i].handles.clear();
            }
            "set_limit" => {
                let _ = dm.set_max_temp_directory_size(o["n"].as_u64().unwrap_or(0));
            }
            _ => continue,
        }
        if let Some(v) = check(&files, step, op, &dm) {
            return v;
        }
        // fault-free histories: the reported usage also equals the bytes on disk
        if !any_os_failure {
            let on_disk: u64 = files.iter().filter(|f| !f.handles.is_empty()).map(|f| std::fs::metadata(&f.path).map(|m| m.len()).unwrap_or(0)).sum();
            if on_disk != dm.used_disk_space() {
                return violation("disk-usage-vs-files", format!("step {step} ({op}): used_disk_space()={} but the live files hold {on_disk} bytes on disk", dm.used_disk_space()));
            }
        }
    }
    for f in files.iter_mut() {
        f.writer = None;
        f.handles.clear();
    }
    if dm.used_disk_space() != 0 {
        return violation("disk-usage-not-zero", format!("used_disk_space()={} after every spill file was released", dm.used_disk_space()));
    }
    for f in &files {
        if f.path.exists() {
            return violation("temp-file-not-deleted", format!("{} still exists after release", f.path.display()));
        }
    }
    Outcome::Pass
}

pub fn check() -> Check {
    Check {
        property: "C21",
        level: "fault_enumeration",
        scenarios: vec![Box::new(RoundTrip), Box::new(Accounting)],
        cases_quick: 12_000,
        cases_thorough: 300_000,
        rule: "c21-roundtrip: 0-5 batches of 0-20 rows over Int64/Utf8/Utf8View(short+long)/Binary/Dictionary/List/Struct with NULLs, optionally sliced or empty, written at once or incrementally with codec none/lz4/zstd, read back with buffer capacity 1-4 through SimDisk with seeded chunk sizes (1 byte .. all) and injected Pending, under seeded task schedules. c21-accounting: histories (<= 15 ops over <= 6 files: create/write/finish/clone/drop/drop_all/set_limit) on the real DiskManager and real temp files; OS write failures injected with RLIMIT_FSIZE (EFBIG at a generated per-file size, so the failing write position is swept) and rejections by the configured limit; byte-exact model of acknowledged writes after every step. The concurrent part (two writers against one limit) runs at L2 (c21-conc). distinct = distinct traces / histories; non-trivial = a scheduling choice existed or a fault fired",
        assumptions: vec![
            "after an OS write failure the partial bytes of the failed call are excused: only acknowledged writes are compared",
            "a writer is not used again after it failed, and is dropped before the last handle of its file",
        ],
        components: json!({
            "real": ["physical-plan/src/spill (SpillManager, InProgressSpillFile, IPC writer, SpillReaderStream, gc_view_arrays, spawn_buffered)", "execution/src/disk_manager.rs on real temp files (accounting part)", "arrow-ipc with lz4/zstd"],
            "stub": ["disk for the round-trip part: SimDisk", "OS write failures: RLIMIT_FSIZE with SIGXFSZ ignored"],
        }),
    }
}
