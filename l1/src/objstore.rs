//! `SimObjectStore`: the object-store seam. Wraps the real in-memory store and owns what a remote
//! store would decide: how a GET body is cut into chunks, when a chunk is not ready yet (Pending),
//! virtual latency of requests, injected errors (before or in the middle of a body), latency of
//! PUTs and multipart parts. All of it scripted from the case.

use crate::sim;
use async_trait::async_trait;
use bytes::Bytes;
use futures::stream::BoxStream;
use futures::{Stream, StreamExt};
use object_store::memory::InMemory;
use object_store::path::Path;
use object_store::{
    CopyOptions, GetOptions, GetResult, GetResultPayload, ListResult, MultipartUpload, ObjectMeta, ObjectStore,
    PutMultipartOptions, PutOptions, PutPayload, PutResult, Result, UploadPart,
};
use std::fmt;
use std::pin::Pin;
use std::sync::Arc;
use std::sync::atomic::{AtomicU64, Ordering};
use std::task::{Context, Poll};
use std::time::Duration;

#[derive(Clone, Debug, Default)]
pub struct StoreSpec {
    /// maximum chunk length of GET bodies (0 = whole body in one chunk)
    pub chunk: usize,
    /// the body stream returns Pending (self-waking) before every n-th chunk (0 = never)
    pub pending_every: u64,
    /// virtual latency of every request, ms (0 = none)
    pub latency_ms: u64,
    /// the n-th GET (0-based) fails: before the body (`mid == false`) or after its first chunk
    pub fail_get: Option<(u64, bool)>,
    /// latency of the k-th multipart part is `part_latency_ms[k % len]` (out-of-order completion)
    pub part_latency_ms: Vec<u64>,
    /// the n-th write-side request fails: "put", "part" or "complete" (0-based per kind)
    pub fail_write: Option<(String, u64)>,
    /// listing order: 0 = as the in-memory store returns it (sorted by path); otherwise the seed of a
    /// permutation (an object store does not promise any order of a listing)
    pub list_order: u64,
}

impl StoreSpec {
    pub fn parse(v: &serde_json::Value) -> Option<StoreSpec> {
        let fail_get = match v.get("fail_get") {
            None | Some(serde_json::Value::Null) => None,
            Some(f) => Some((f.get("nth")?.as_u64()?, f.get("mid")?.as_bool()?)),
        };
        Some(StoreSpec {
            chunk: v.get("chunk")?.as_u64()? as usize,
            pending_every: v.get("pending_every")?.as_u64()?,
            latency_ms: v.get("latency_ms")?.as_u64()?.min(10_000),
            fail_get,
            part_latency_ms: v.get("part_latency_ms").and_then(|a| a.as_array()).map(|a| a.iter().filter_map(|x| x.as_u64()).collect()).unwrap_or_default(),
            list_order: v.get("list_order").and_then(|x| x.as_u64()).unwrap_or(0),
            fail_write: match v.get("fail_write") {
                None | Some(serde_json::Value::Null) => None,
                Some(f) => Some((f.get("kind")?.as_str()?.to_string(), f.get("nth")?.as_u64()?)),
            },
        })
    }
}

#[derive(Debug, Default)]
pub struct StoreStats {
    pub gets: AtomicU64,
    pub get_chunks: AtomicU64,
    pub get_pendings: AtomicU64,
    pub get_errors: AtomicU64,
    pub puts: AtomicU64,
    pub parts: AtomicU64,
    pub completes: AtomicU64,
    pub write_errors: AtomicU64,
    pub lists: AtomicU64,
}

#[derive(Debug)]
pub struct SimObjectStore {
    pub inner: Arc<InMemory>,
    pub spec: StoreSpec,
    pub stats: Arc<StoreStats>,
}

impl SimObjectStore {
    pub fn new(spec: StoreSpec) -> Arc<Self> {
        Arc::new(SimObjectStore { inner: Arc::new(InMemory::new()), spec, stats: Arc::new(StoreStats::default()) })
    }
    async fn latency(&self) {
        if self.spec.latency_ms > 0 {
            tokio::time::sleep(Duration::from_millis(self.spec.latency_ms)).await;
        }
    }
}

impl fmt::Display for SimObjectStore {
    fn fmt(&self, f: &mut fmt::Formatter<'_>) -> fmt::Result {
        write!(f, "SimObjectStore")
    }
}

struct ChunkedBody {
    data: Bytes,
    pos: usize,
    chunk: usize,
    pending_every: u64,
    chunks: u64,
    pended: bool,
    fail_after_first: bool,
    stats: Arc<StoreStats>,
}

impl Stream for ChunkedBody {
    type Item = Result<Bytes>;
    fn poll_next(mut self: Pin<&mut Self>, cx: &mut Context<'_>) -> Poll<Option<Self::Item>> {
        if self.pos >= self.data.len() {
            return Poll::Ready(None);
        }
        if self.fail_after_first && self.chunks >= 1 {
            self.pos = self.data.len();
            self.stats.get_errors.fetch_add(1, Ordering::Relaxed);
            sim::probe("fault.object_store_get_mid_body");
            return Poll::Ready(Some(Err(object_store::Error::Generic {
                store: "sim",
                source: "simulated connection reset in the middle of a GET body".into(),
            })));
        }
        if self.pending_every > 0 && !self.pended && self.chunks % self.pending_every == 0 {
            self.pended = true;
            self.stats.get_pendings.fetch_add(1, Ordering::Relaxed);
            cx.waker().wake_by_ref();
            return Poll::Pending;
        }
        self.pended = false;
        let n = if self.chunk == 0 { self.data.len() - self.pos } else { self.chunk.min(self.data.len() - self.pos) };
        let b = self.data.slice(self.pos..self.pos + n);
        self.pos += n;
        self.chunks += 1;
        self.stats.get_chunks.fetch_add(1, Ordering::Relaxed);
        Poll::Ready(Some(Ok(b)))
    }
}

#[async_trait]
impl ObjectStore for SimObjectStore {
    async fn put_opts(&self, location: &Path, payload: PutPayload, opts: PutOptions) -> Result<PutResult> {
        let n = self.stats.puts.fetch_add(1, Ordering::Relaxed);
        self.latency().await;
        if matches!(&self.spec.fail_write, Some((k, nth)) if k == "put" && *nth == n) {
            self.stats.write_errors.fetch_add(1, Ordering::Relaxed);
            sim::probe("fault.object_store_put");
            return Err(object_store::Error::Generic { store: "sim", source: "simulated PUT failure".into() });
        }
        self.inner.put_opts(location, payload, opts).await
    }
    async fn put_multipart_opts(&self, location: &Path, opts: PutMultipartOptions) -> Result<Box<dyn MultipartUpload>> {
        self.latency().await;
        let inner = self.inner.put_multipart_opts(location, opts).await?;
        Ok(Box::new(SimUpload {
            inner,
            n: 0,
            latencies: self.spec.part_latency_ms.clone(),
            stats: Arc::clone(&self.stats),
            fail: self.spec.fail_write.clone(),
        }))
    }
    async fn get_opts(&self, location: &Path, options: GetOptions) -> Result<GetResult> {
        let n = self.stats.gets.fetch_add(1, Ordering::Relaxed);
        self.latency().await;
        let mut fail_mid = false;
        if let Some((nth, mid)) = self.spec.fail_get {
            if nth == n {
                if !mid {
                    self.stats.get_errors.fetch_add(1, Ordering::Relaxed);
                    sim::probe("fault.object_store_get");
                    return Err(object_store::Error::Generic { store: "sim", source: "simulated GET failure".into() });
                }
                fail_mid = true;
            }
        }
        let head = options.head;
        let r = self.inner.get_opts(location, options).await?;
        if head {
            return Ok(r);
        }
        let meta = r.meta.clone();
        let range = r.range.clone();
        let attributes = r.attributes.clone();
        let data = r.bytes().await?;
        let body = ChunkedBody {
            data,
            pos: 0,
            chunk: self.spec.chunk,
            pending_every: self.spec.pending_every,
            chunks: 0,
            pended: false,
            fail_after_first: fail_mid,
            stats: Arc::clone(&self.stats),
        };
        Ok(GetResult { payload: GetResultPayload::Stream(body.boxed()), meta, range, attributes })
    }
    fn delete_stream(&self, locations: BoxStream<'static, Result<Path>>) -> BoxStream<'static, Result<Path>> {
        self.inner.delete_stream(locations)
    }
    fn list(&self, prefix: Option<&Path>) -> BoxStream<'static, Result<ObjectMeta>> {
        self.stats.lists.fetch_add(1, Ordering::Relaxed);
        if self.spec.list_order == 0 {
            return self.inner.list(prefix);
        }
        // a seeded permutation of the listing (collected first: the in-memory store answers at once)
        let seed = self.spec.list_order;
        let inner = self.inner.list(prefix);
        futures::stream::once(async move {
            let mut items: Vec<Result<ObjectMeta>> = inner.collect().await;
            let mut rng = dst_common::rng::Rng::new(seed);
            for i in (1..items.len()).rev() {
                let j = rng.below(i as u64 + 1) as usize;
                items.swap(i, j);
            }
            futures::stream::iter(items)
        })
        .flatten()
        .boxed()
    }
    async fn list_with_delimiter(&self, prefix: Option<&Path>) -> Result<ListResult> {
        self.stats.lists.fetch_add(1, Ordering::Relaxed);
        self.latency().await;
        self.inner.list_with_delimiter(prefix).await
    }
    async fn copy_opts(&self, from: &Path, to: &Path, options: CopyOptions) -> Result<()> {
        self.inner.copy_opts(from, to, options).await
    }
}

#[derive(Debug)]
struct SimUpload {
    inner: Box<dyn MultipartUpload>,
    n: usize,
    latencies: Vec<u64>,
    stats: Arc<StoreStats>,
    fail: Option<(String, u64)>,
}

#[async_trait]
impl MultipartUpload for SimUpload {
    fn put_part(&mut self, data: PutPayload) -> UploadPart {
        let fut = self.inner.put_part(data);
        let ms = if self.latencies.is_empty() { 0 } else { self.latencies[self.n % self.latencies.len()] };
        self.n += 1;
        let k = self.stats.parts.fetch_add(1, Ordering::Relaxed);
        let fail = matches!(&self.fail, Some((kind, nth)) if kind == "part" && *nth == k);
        let stats = Arc::clone(&self.stats);
        Box::pin(async move {
            if fail {
                stats.write_errors.fetch_add(1, Ordering::Relaxed);
                sim::probe("fault.object_store_part");
                return Err(object_store::Error::Generic { store: "sim", source: "simulated multipart part failure".into() });
            }
            if ms > 0 {
                // parts complete out of order: each has its own (virtual) latency
                tokio::time::sleep(Duration::from_millis(ms)).await;
            }
            fut.await
        })
    }
    async fn complete(&mut self) -> Result<PutResult> {
        let k = self.stats.completes.fetch_add(1, Ordering::Relaxed);
        if matches!(&self.fail, Some((kind, nth)) if kind == "complete" && *nth == k) {
            self.stats.write_errors.fetch_add(1, Ordering::Relaxed);
            sim::probe("fault.object_store_complete");
            return Err(object_store::Error::Generic { store: "sim", source: "simulated failure completing a multipart upload".into() });
        }
        self.inner.complete().await
    }
    async fn abort(&mut self) -> Result<()> {
        self.inner.abort().await
    }
}
