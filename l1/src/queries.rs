//! Query templates over tables a, b (schema id, k, s, v) with independent reference evaluators.
//! References exist for joins, grouped aggregation, DISTINCT, set operations, sorts and top-n shapes
//! (C05/C06/C08); the other templates are compared with the baseline configuration (C02).
//!
//! Key and value *types* are varied without touching the stored data: a template may read its tables
//! through a derived table that casts `k` (Int32) to another type (`kt`: Int64, Float64, Decimal,
//! Boolean, Date32, Utf8, Dictionary, Utf8View, UInt16, Int8) and `v` (Int64) to another (`vt`:
//! Float64, Decimal, Int32), so that the type-specialised paths of the operators (group values,
//! sort cursors, join hash maps, accumulators) are reached; the reference applies the same mapping.

use crate::data::Row;
use crate::sqlsim::Cells;
use dst_common::rng::Rng;
use serde_json::{Value, json};
use std::collections::{BTreeMap, BTreeSet};

#[derive(Clone, Copy, PartialEq)]
pub enum Family {
    Join,
    Agg,
    Sort,
    Any,
}

/// How a result is compared with the expected rows.
#[derive(Clone, Debug, PartialEq)]
pub enum Compare {
    Multiset,
    Sequence,
    /// `LIMIT n` without a total order: any n rows (or all, if fewer) of the universe, none twice
    LimitAny,
    /// top-n with ties: the sequence of the columns from `from` on must equal the expected one,
    /// every row must be a row of the universe, none twice
    TopTies { from: usize },
}

const KTS: &[&str] = &["i32", "i32", "i32", "i64", "f64", "dec", "bool", "date", "utf8", "dict", "view", "u16", "i8"];
const VTS: &[&str] = &["i64", "i64", "i64", "f64", "dec", "i32"];

fn pick_kt(rng: &mut Rng) -> &'static str {
    *rng.pick(KTS)
}
fn pick_vt(rng: &mut Rng) -> &'static str {
    *rng.pick(VTS)
}

pub fn generate(rng: &mut Rng, fam: Family) -> Value {
    let fam = if fam == Family::Any {
        match rng.below(10) {
            0 | 1 | 2 => Family::Join,
            3 | 4 => Family::Agg,
            5 | 6 => Family::Sort,
            _ => Family::Any,
        }
    } else {
        fam
    };
    let mut q = match fam {
        Family::Join => match rng.below(15) {
            14 => json!({"t": "recursive", "c": rng.below(700) as i64 - 300, "depth": rng.range(1, 3), "dedup": rng.chance(1, 3)}),
            0 => json!({"t": "nlj", "jt": *rng.pick(&["inner", "left", "right", "full", "semi", "anti", "rsemi", "ranti"])}),
            1 => json!({"t": "cross"}),
            2 | 13 => json!({"t": "notin"}),
            3 => json!({"t": "mark", "residual": rng.chance(1, 3), "c": rng.below(700) as i64 - 300, "neg": rng.chance(1, 3)}),
            4 => json!({"t": "setop", "op": *rng.pick(&["intersect", "except"]), "cols": *rng.pick(&["k", "ks", "s"])}),
            _ => json!({
                "t": "join",
                "jt": *rng.pick(&["inner", "inner", "left", "right", "full", "semi", "anti", "rsemi", "ranti"]),
                "residual": rng.chance(1, 3),
                "nulleq": rng.chance(1, 5),
                "key": *rng.pick(&["k", "k", "s", "ks"]),
            }),
        },
        Family::Agg => match rng.below(16) {
            0 => json!({"t": "global"}),
            1 => json!({"t": "distinct"}),
            2 => json!({"t": "topk_agg", "n": rng.range(1, 4)}),
            3 | 4 => json!({"t": "groupby_filter", "keys": *rng.pick(&["k", "s", "ks"]), "c": rng.below(300) as i64 - 100}),
            5 => json!({"t": "groupby_ord", "keys": *rng.pick(&["k", "s", "ks"])}),
            6 => json!({"t": "rollup", "kind": *rng.pick(&["rollup", "cube", "sets"])}),
            7 => json!({"t": "having", "keys": *rng.pick(&["k", "s", "ks"]), "n": rng.range(0, 3), "c": rng.below(700) as i64 - 300}),
            8 => json!({"t": "distinct_aggs", "keys": *rng.pick(&["k", "s"]), "single": rng.chance(1, 2)}),
            9 => json!({"t": "groupby_str", "keys": *rng.pick(&["k", "ks"])}),
            10 => json!({"t": "topk_ties", "agg": *rng.pick(&["min", "max"]), "desc": rng.chance(1, 2), "key": *rng.pick(&["k", "s"]), "n": rng.range(1, 5)}),
            11 => json!({"t": "distinct_limit", "n": rng.range(0, 6)}),
            _ => json!({"t": "groupby", "keys": *rng.pick(&["k", "k", "s", "ks"])}),
        },
        Family::Sort => match rng.below(12) {
            0..=2 => json!({
                // single-column key (primitive / string cursors instead of the row format); only the key
                // is projected, so ties are indistinguishable and the sequence is still determined
                "t": "sort1",
                "by": *rng.pick(&["s", "s", "k", "v"]),
                "desc": rng.chance(1, 2),
                "nulls_first": rng.chance(1, 2),
                "limit": if rng.chance(1, 3) { json!(rng.range(0, 12)) } else { Value::Null },
            }),
            3 | 4 => json!({
                "t": "sort2",
                "by": [*rng.pick(&["k", "s", "v"]), *rng.pick(&["k", "s", "v"])],
                "desc": [rng.chance(1, 2), rng.chance(1, 2)],
                "nulls_first": [rng.chance(1, 2), rng.chance(1, 2)],
                "limit": if rng.chance(1, 2) { json!(rng.range(0, 12)) } else { Value::Null },
                "offset": if rng.chance(1, 4) { json!(rng.range(0, 5)) } else { Value::Null },
            }),
            5 => json!({
                "t": "window_topn",
                "f": *rng.pick(&["row_number", "row_number", "rank", "dense_rank"]),
                "desc": rng.chance(1, 2),
                "nulls_first": rng.chance(1, 2),
                "n": rng.range(1, 4),
                // an outer ORDER BY that repeats the window's own (partition, order) keys: the optimizer may
                // rely on the ordering the top-n operator declares instead of sorting again
                "ordered": rng.chance(1, 2),
            }),
            6 => json!({"t": "limit_any", "c": rng.below(700) as i64 - 300, "n": rng.range(0, 12), "m": if rng.chance(1, 3) { rng.range(0, 4) } else { 0 }}),
            7 => json!({"t": "union_sorted", "desc": rng.chance(1, 2), "limit": if rng.chance(1, 2) { json!(rng.range(0, 12)) } else { Value::Null }}),
            _ => json!({
                "t": "sort",
                "by": *rng.pick(&["k", "k", "s", "v"]),
                "desc": rng.chance(1, 2),
                "nulls_first": rng.chance(1, 2),
                "limit": if rng.chance(1, 2) { json!(rng.range(0, 12)) } else { Value::Null },
            }),
        },
        Family::Any => match rng.below(18) {
            9 | 10 => json!({"t": "groupby_avg", "keys": *rng.pick(&["k", "s", "ks"]), "c": rng.below(300) as i64 - 100}),
            0 => json!({"t": "filter", "c": rng.below(400) as i64 - 100}),
            1 => json!({"t": "union_all"}),
            2 => json!({"t": "union"}),
            3 => json!({"t": "window_sum"}),
            4 => json!({"t": "window_rn"}),
            5 => json!({"t": "join_agg"}),
            6 => json!({"t": "in_subquery"}),
            7 => json!({"t": "scalar_subquery"}),
            11 => json!({"t": "window_rank"}),
            12 => json!({"t": "window_lag"}),
            13 => json!({"t": "window_range"}),
            14 => json!({"t": "window_unbounded"}),
            15 => json!({"t": "join3"}),
            16 => json!({"t": "cte_reuse"}),
            _ => json!({"t": "limit", "n": rng.range(0, 10), "m": rng.range(0, 5)}),
        },
    };
    // type variants (a third of the queries)
    if q["t"] == json!("recursive") {
        return q;
    }
    if rng.chance(1, 3) {
        q["kt"] = json!(pick_kt(rng));
    }
    if rng.chance(1, 5) {
        q["vt"] = json!(pick_vt(rng));
    }
    q
}

// ---------------------------------------------------------------------------------------
// type variants

fn kt_of(q: &Value) -> &str {
    q.get("kt").and_then(|x| x.as_str()).unwrap_or("i32")
}
fn vt_of(q: &Value) -> &str {
    q.get("vt").and_then(|x| x.as_str()).unwrap_or("i64")
}

fn kexpr(kt: &str) -> Option<&'static str> {
    Some(match kt {
        "i32" => "k",
        "i64" => "CAST(k AS BIGINT)",
        "f64" => "CAST(k AS DOUBLE) / 2",
        "dec" => "CAST(k AS DECIMAL(10,2))",
        "bool" => "(k % 2 = 0)",
        "date" => "CAST(k AS DATE)",
        "utf8" => "CAST(k AS VARCHAR)",
        "dict" => "arrow_cast(CAST(k AS VARCHAR), 'Dictionary(Int32, Utf8)')",
        "view" => "arrow_cast(CAST(k AS VARCHAR), 'Utf8View')",
        "u16" => "arrow_cast(k, 'UInt16')",
        "i8" => "arrow_cast(k, 'Int8')",
        _ => return None,
    })
}
fn vexpr(vt: &str) -> Option<&'static str> {
    Some(match vt {
        "i64" => "v",
        "f64" => "CAST(v AS DOUBLE)",
        "dec" => "CAST(v AS DECIMAL(12,2))",
        "i32" => "CAST(v AS INT)",
        _ => return None,
    })
}

/// The table expression for `name` under the query's type variants.
fn tbl(q: &Value, name: &str) -> Option<String> {
    tbl_as(q, name, name)
}
fn tbl_as(q: &Value, name: &str, alias: &str) -> Option<String> {
    let (kt, vt) = (kt_of(q), vt_of(q));
    let (ke, ve) = (kexpr(kt)?, vexpr(vt)?);
    Some(if kt == "i32" && vt == "i64" {
        if name == alias { name.to_string() } else { format!("{name} AS {alias}") }
    } else {
        format!("(SELECT id, {ke} AS k, s, {ve} AS v FROM {name}) AS {alias}")
    })
}

/// A key after the type mapping: what it compares as, and how the engine prints it.
#[derive(Clone, Debug, PartialEq, Eq, PartialOrd, Ord)]
pub enum KOrd {
    I(i64),
    S(String),
}
fn kmap(kt: &str, k: Option<i32>) -> Option<KOrd> {
    let k = k?;
    Some(match kt {
        "bool" => KOrd::I((k % 2 == 0) as i64),
        "utf8" | "dict" | "view" => KOrd::S(k.to_string()),
        _ => KOrd::I(k as i64),
    })
}
fn ktext(kt: &str, k: Option<i32>) -> Option<String> {
    let k = k?;
    Some(match kt {
        "f64" => {
            if k % 2 == 0 { format!("{}.0", k / 2) } else { format!("{}.5", k / 2) }
        }
        "dec" => format!("{k}.00"),
        "bool" => (k % 2 == 0).to_string(),
        "date" => {
            // days since the epoch; generated keys are < 28
            format!("1970-01-{:02}", k + 1)
        }
        _ => k.to_string(),
    })
}
fn vtext(vt: &str, v: Option<i64>) -> Option<String> {
    let v = v?;
    Some(match vt {
        "f64" => format!("{v}.0"),
        "dec" => format!("{v}.00"),
        _ => v.to_string(),
    })
}

// ---------------------------------------------------------------------------------------
// SQL text

fn key_cond(key: &str, nulleq: bool) -> Option<String> {
    let op = if nulleq { "IS NOT DISTINCT FROM" } else { "=" };
    Some(match key {
        // (parenthesised: `x IS NOT DISTINCT FROM y AND ...` would otherwise parse as `x IS NOT DISTINCT FROM (y AND ...)`)
        "k" => format!("(a.k {op} b.k)"),
        "s" => format!("(a.s {op} b.s)"),
        "ks" => format!("(a.k {op} b.k) AND (a.s {op} b.s)"),
        _ => return None,
    })
}
fn group_keys(q: &Value) -> Option<&'static str> {
    Some(match q.get("keys")?.as_str()? {
        "k" => "k",
        "s" => "s",
        "ks" => "k, s",
        _ => return None,
    })
}
fn dir(desc: bool) -> &'static str {
    if desc { "DESC" } else { "ASC" }
}
fn nulls(first: bool) -> &'static str {
    if first { "NULLS FIRST" } else { "NULLS LAST" }
}
fn limit_clause(q: &Value) -> Option<String> {
    let mut s = match q.get("limit") {
        Some(Value::Null) | None => String::new(),
        Some(n) => format!(" LIMIT {}", n.as_u64()?),
    };
    match q.get("offset") {
        Some(Value::Null) | None => {}
        Some(n) => s.push_str(&format!(" OFFSET {}", n.as_u64()?)),
    }
    Some(s)
}

pub fn sql(q: &Value) -> Option<String> {
    let t = q.get("t")?.as_str()?;
    let a = tbl(q, "a")?;
    let b = tbl(q, "b")?;
    Some(match t {
        "join" => {
            let jt = q.get("jt")?.as_str()?;
            let mut cond = key_cond(q.get("key")?.as_str()?, q.get("nulleq")?.as_bool()?)?;
            if q.get("residual")?.as_bool()? {
                cond.push_str(" AND a.v < b.v");
            }
            match jt {
                "inner" | "left" | "right" | "full" => {
                    format!("SELECT a.id, b.id FROM {a} {} JOIN {b} ON {cond}", jt.to_uppercase())
                }
                "semi" => format!("SELECT a.id FROM {a} LEFT SEMI JOIN {b} ON {cond}"),
                "anti" => format!("SELECT a.id FROM {a} LEFT ANTI JOIN {b} ON {cond}"),
                "rsemi" => format!("SELECT b.id FROM {a} RIGHT SEMI JOIN {b} ON {cond}"),
                "ranti" => format!("SELECT b.id FROM {a} RIGHT ANTI JOIN {b} ON {cond}"),
                _ => return None,
            }
        }
        "nlj" => {
            let jt = q.get("jt")?.as_str()?;
            match jt {
                "inner" | "left" | "right" | "full" => format!("SELECT a.id, b.id FROM {a} {} JOIN {b} ON a.v < b.v", jt.to_uppercase()),
                "semi" => format!("SELECT a.id FROM {a} LEFT SEMI JOIN {b} ON a.v < b.v"),
                "anti" => format!("SELECT a.id FROM {a} LEFT ANTI JOIN {b} ON a.v < b.v"),
                "rsemi" => format!("SELECT b.id FROM {a} RIGHT SEMI JOIN {b} ON a.v < b.v"),
                "ranti" => format!("SELECT b.id FROM {a} RIGHT ANTI JOIN {b} ON a.v < b.v"),
                _ => return None,
            }
        }
        "cross" => format!("SELECT a.id, b.id FROM {a} CROSS JOIN {b}"),
        // a recursive CTE: the recursive term (a join of the working table with b) is executed once per
        // iteration, with a different build side each time (type variants do not apply)
        "recursive" => format!(
            "WITH RECURSIVE r(k, d) AS (SELECT k, 0 FROM a WHERE v > {c} UNION {all} SELECT CAST(abs(b.v) % 7 AS INT), r.d + 1 FROM r JOIN b ON r.k = b.k WHERE r.d < {depth}) SELECT k, d, count(*) FROM r GROUP BY k, d",
            c = q.get("c")?.as_i64()?,
            depth = q.get("depth")?.as_u64()?.min(3),
            all = if q.get("dedup")?.as_bool()? { "" } else { "ALL" },
        ),
        "notin" => format!("SELECT id FROM {a} WHERE k NOT IN (SELECT k FROM {b})"),
        "mark" => {
            let res = if q.get("residual")?.as_bool()? { " AND a.v < b.v" } else { "" };
            let neg = if q.get("neg")?.as_bool()? { "NOT " } else { "" };
            format!("SELECT a.id FROM {a} WHERE {neg}EXISTS (SELECT 1 FROM {b} WHERE a.k = b.k{res}) OR a.v > {}", q.get("c")?.as_i64()?)
        }
        "setop" => {
            let cols = match q.get("cols")?.as_str()? {
                "k" => "k",
                "s" => "s",
                "ks" => "k, s",
                _ => return None,
            };
            let op = match q.get("op")?.as_str()? {
                "intersect" => "INTERSECT",
                "except" => "EXCEPT",
                _ => return None,
            };
            format!("SELECT {cols} FROM {a} {op} SELECT {cols} FROM {b}")
        }
        "groupby" => {
            let keys = group_keys(q)?;
            format!("SELECT {keys}, count(*), count(v), sum(v), min(v), max(v), count(DISTINCT v) FROM {a} GROUP BY {keys}")
        }
        "groupby_filter" => {
            let keys = group_keys(q)?;
            let c = q.get("c")?.as_i64()?;
            format!(
                "SELECT {keys}, count(*) FILTER (WHERE v > {c}), sum(1) FILTER (WHERE v > {c}), sum(v) FILTER (WHERE v > {c}), count(*), max(v) FILTER (WHERE k IS NOT NULL) FROM {a} GROUP BY {keys}"
            )
        }
        "groupby_avg" => {
            let keys = group_keys(q)?;
            let c = q.get("c")?.as_i64()?;
            // (small integers: the float average is exact, so it cannot depend on the summation order)
            format!("SELECT {keys}, avg(v), avg(v) FILTER (WHERE v > {c}), count(v), min(s), max(s) FROM {a} GROUP BY {keys}")
        }
        "groupby_ord" => {
            let keys = group_keys(q)?;
            format!(
                "SELECT {keys}, first_value(v ORDER BY id), last_value(v ORDER BY id), nth_value(v, 2 ORDER BY id), string_agg(s, '|' ORDER BY id), count(*) FROM {a} GROUP BY {keys}"
            )
        }
        "rollup" => {
            let g = match q.get("kind")?.as_str()? {
                "rollup" => "ROLLUP(k, s)",
                "cube" => "CUBE(k, s)",
                "sets" => "GROUPING SETS ((k), (s), ())",
                _ => return None,
            };
            format!("SELECT k, s, count(*), sum(v) FROM {a} GROUP BY {g}")
        }
        "having" => {
            let keys = group_keys(q)?;
            format!(
                "SELECT {keys}, count(*), max(v) FROM {a} GROUP BY {keys} HAVING count(*) > {} AND (max(v) > {} OR min(v) IS NULL)",
                q.get("n")?.as_u64()?,
                q.get("c")?.as_i64()?
            )
        }
        "distinct_aggs" => {
            let key = match q.get("keys")?.as_str()? {
                "k" => "k",
                "s" => "s",
                _ => return None,
            };
            if q.get("single")?.as_bool()? {
                format!("SELECT {key}, count(DISTINCT v), sum(DISTINCT v) FROM {a} GROUP BY {key}")
            } else {
                format!("SELECT {key}, count(DISTINCT v), count(DISTINCT s), count(*) FROM {a} GROUP BY {key}")
            }
        }
        "groupby_str" => {
            let keys = match q.get("keys")?.as_str()? {
                "k" => "k",
                "ks" => "k, s",
                _ => return None,
            };
            format!("SELECT {keys}, min(s), max(s), count(s), bool_and(v > 0), bool_or(v > 0) FROM {a} GROUP BY {keys}")
        }
        "topk_ties" => {
            let key = match q.get("key")?.as_str()? {
                "k" => "k",
                "s" => "s",
                _ => return None,
            };
            let agg = match q.get("agg")?.as_str()? {
                "min" => "min",
                "max" => "max",
                _ => return None,
            };
            format!(
                "SELECT {key}, {agg}(v) FROM {a} GROUP BY {key} ORDER BY {agg}(v) {} NULLS LAST LIMIT {}",
                dir(q.get("desc")?.as_bool()?),
                q.get("n")?.as_u64()?
            )
        }
        "distinct_limit" => format!("SELECT DISTINCT k, s FROM {a} LIMIT {}", q.get("n")?.as_u64()?),
        "global" => format!("SELECT count(*), count(v), sum(v), min(v), max(v), count(DISTINCT k) FROM {a}"),
        "distinct" => format!("SELECT DISTINCT k, s FROM {a}"),
        "topk_agg" => format!(
            "SELECT k, max(v) FROM {a} GROUP BY k ORDER BY max(v) DESC NULLS LAST, k NULLS LAST LIMIT {}",
            q.get("n")?.as_u64()?
        ),
        "sort" => {
            let by = q.get("by")?.as_str()?;
            if !["k", "s", "v"].contains(&by) {
                return None;
            }
            format!(
                "SELECT id, k, s, v FROM {a} ORDER BY {by} {} {}, id{}",
                dir(q.get("desc")?.as_bool()?),
                nulls(q.get("nulls_first")?.as_bool()?),
                limit_clause(q)?
            )
        }
        "sort1" => {
            let by = q.get("by")?.as_str()?;
            if !["k", "s", "v"].contains(&by) {
                return None;
            }
            format!("SELECT {by} FROM {a} ORDER BY {by} {} {}{}", dir(q.get("desc")?.as_bool()?), nulls(q.get("nulls_first")?.as_bool()?), limit_clause(q)?)
        }
        "sort2" => {
            let by = q.get("by")?.as_array()?;
            let desc = q.get("desc")?.as_array()?;
            let nf = q.get("nulls_first")?.as_array()?;
            if by.len() != 2 || desc.len() != 2 || nf.len() != 2 {
                return None;
            }
            let mut terms = vec![];
            for i in 0..2 {
                let c = by[i].as_str()?;
                if !["k", "s", "v"].contains(&c) {
                    return None;
                }
                terms.push(format!("{c} {} {}", dir(desc[i].as_bool()?), nulls(nf[i].as_bool()?)));
            }
            format!("SELECT id, k, s, v FROM {a} ORDER BY {}, {}, id{}", terms[0], terms[1], limit_clause(q)?)
        }
        "window_topn" => {
            let f = q.get("f")?.as_str()?;
            if !["row_number", "rank", "dense_rank"].contains(&f) {
                return None;
            }
            let tie = if f == "row_number" { ", id" } else { "" };
            let (d, nl) = (dir(q.get("desc")?.as_bool()?), nulls(q.get("nulls_first")?.as_bool()?));
            let outer = if q.get("ordered").and_then(|x| x.as_bool()).unwrap_or(false) { format!(" ORDER BY k ASC NULLS LAST, v {d} {nl}, id") } else { String::new() };
            format!(
                "SELECT id, k, v, rn FROM (SELECT id, k, v, {f}() OVER (PARTITION BY k ORDER BY v {d} {nl}{tie}) AS rn FROM {a}) WHERE rn <= {}{outer}",
                q.get("n")?.as_u64()?
            )
        }
        "limit_any" => {
            let m = q.get("m")?.as_u64()?;
            let off = if m > 0 { format!(" OFFSET {m}") } else { String::new() };
            format!("SELECT id FROM {a} WHERE v > {} LIMIT {}{off}", q.get("c")?.as_i64()?, q.get("n")?.as_u64()?)
        }
        "union_sorted" => format!(
            "SELECT id, k FROM {a} UNION ALL SELECT id, k FROM {b} ORDER BY k {} NULLS LAST, id{}",
            dir(q.get("desc")?.as_bool()?),
            limit_clause(q)?
        ),
        "filter" => format!("SELECT id, k, s, v FROM {a} WHERE v > {} OR k IS NULL", q.get("c")?.as_i64()?),
        "union_all" => format!("SELECT id, k FROM {a} UNION ALL SELECT id, k FROM {b}"),
        "union" => format!("SELECT k FROM {a} UNION SELECT k FROM {b}"),
        "window_sum" => format!("SELECT id, sum(v) OVER (PARTITION BY k ORDER BY id ROWS BETWEEN 1 PRECEDING AND CURRENT ROW) AS w FROM {a}"),
        "window_rn" => format!("SELECT id, row_number() OVER (PARTITION BY k ORDER BY id) AS rn FROM {a}"),
        "window_rank" => format!(
            "SELECT id, rank() OVER (PARTITION BY k ORDER BY v), dense_rank() OVER (PARTITION BY k ORDER BY v DESC), ntile(3) OVER (PARTITION BY k ORDER BY id) FROM {a}"
        ),
        "window_lag" => format!(
            "SELECT id, lag(v) OVER (PARTITION BY k ORDER BY id), lead(v, 2) OVER (PARTITION BY k ORDER BY id), first_value(v) OVER (PARTITION BY k ORDER BY id), last_value(v) OVER (PARTITION BY k ORDER BY id ROWS BETWEEN CURRENT ROW AND 1 FOLLOWING) FROM {a}"
        ),
        "window_range" => format!(
            "SELECT id, sum(v) OVER (ORDER BY v RANGE BETWEEN 50 PRECEDING AND 50 FOLLOWING), count(*) OVER (PARTITION BY s ORDER BY v RANGE BETWEEN UNBOUNDED PRECEDING AND CURRENT ROW) FROM {a}"
        ),
        "window_unbounded" => format!(
            "SELECT id, sum(v) OVER (PARTITION BY k), count(*) OVER (), max(v) OVER (PARTITION BY s ORDER BY id ROWS BETWEEN UNBOUNDED PRECEDING AND UNBOUNDED FOLLOWING) FROM {a}"
        ),
        "join_agg" => format!("SELECT a.k, count(*), sum(b.v) FROM {a} JOIN {b} ON a.k = b.k GROUP BY a.k"),
        "join3" => format!("SELECT a.id, b.id, c.id FROM {a} JOIN {b} ON a.k = b.k LEFT JOIN {} ON b.s = c.s AND c.v > a.v", tbl_as(q, "a", "c")?),
        "cte_reuse" => format!("WITH g AS (SELECT k, count(*) AS n, sum(v) AS sv FROM {a} GROUP BY k) SELECT x.k, x.n, y.sv FROM g x JOIN g y ON x.k = y.k WHERE x.n >= y.n"),
        "in_subquery" => format!("SELECT id FROM {a} WHERE k IN (SELECT k FROM {b} WHERE v > 0)"),
        "scalar_subquery" => format!("SELECT id FROM {a} WHERE v > (SELECT max(v) - 200 FROM {b})"),
        "limit" => format!("SELECT id FROM {a} ORDER BY id LIMIT {} OFFSET {}", q.get("n")?.as_u64()?, q.get("m")?.as_u64()?),
        _ => return None,
    })
}

pub fn uses_b(q: &Value) -> bool {
    matches!(
        q.get("t").and_then(|t| t.as_str()).unwrap_or(""),
        "join" | "nlj" | "cross" | "notin" | "mark" | "setop" | "union_all" | "union" | "union_sorted" | "join_agg" | "join3" | "in_subquery" | "scalar_subquery" | "recursive"
    )
}

/// Templates whose result can grow with the product of the table sizes: small tables only.
pub fn needs_small_tables(q: &Value) -> bool {
    matches!(q.get("t").and_then(|t| t.as_str()).unwrap_or(""), "cross" | "nlj" | "join3" | "recursive")
}

pub fn has_reference(q: &Value) -> bool {
    matches!(
        q.get("t").and_then(|t| t.as_str()).unwrap_or(""),
        "join" | "nlj" | "cross" | "notin" | "mark" | "setop" | "recursive" | "groupby" | "groupby_filter" | "groupby_ord" | "rollup" | "having" | "distinct_aggs" | "groupby_str"
            | "topk_ties" | "distinct_limit" | "global" | "distinct" | "topk_agg" | "sort" | "sort1" | "sort2" | "window_topn" | "limit_any" | "union_sorted"
    )
}

/// How the result is to be compared with `reference` (and `universe`).
pub fn compare_mode(q: &Value) -> Compare {
    match q.get("t").and_then(|t| t.as_str()).unwrap_or("") {
        "sort" | "sort1" | "sort2" | "topk_agg" | "limit" | "union_sorted" => Compare::Sequence,
        "window_topn" if q.get("ordered").and_then(|x| x.as_bool()).unwrap_or(false) => Compare::Sequence,
        "limit_any" | "distinct_limit" => Compare::LimitAny,
        "topk_ties" => Compare::TopTies { from: 1 },
        _ => Compare::Multiset,
    }
}

fn i(x: i64) -> Option<String> {
    Some(x.to_string())
}

fn v_less(a: &Row, b: &Row) -> bool {
    matches!((a.v, b.v), (Some(x), Some(y)) if x < y)
}

pub fn join_reference(a: &[Row], b: &[Row], jt: &str, m: impl Fn(&Row, &Row) -> bool) -> Vec<Cells> {
    let mut out = vec![];
    let mut b_matched = vec![false; b.len()];
    for ra in a {
        let mut any = false;
        for (j, rb) in b.iter().enumerate() {
            if m(ra, rb) {
                any = true;
                b_matched[j] = true;
                if matches!(jt, "inner" | "left" | "right" | "full") {
                    out.push(vec![i(ra.id), i(rb.id)]);
                }
            }
        }
        match jt {
            "left" | "full" if !any => out.push(vec![i(ra.id), None]),
            "semi" if any => out.push(vec![i(ra.id)]),
            "anti" if !any => out.push(vec![i(ra.id)]),
            _ => {}
        }
    }
    for (j, rb) in b.iter().enumerate() {
        match jt {
            "right" | "full" if !b_matched[j] => out.push(vec![None, i(rb.id)]),
            "rsemi" if b_matched[j] => out.push(vec![i(rb.id)]),
            "ranti" if !b_matched[j] => out.push(vec![i(rb.id)]),
            _ => {}
        }
    }
    out
}

#[derive(Default, Clone)]
struct Acc {
    n: i64,
    nv: i64,
    sum: Option<i64>,
    min: Option<i64>,
    max: Option<i64>,
    distinct: BTreeSet<i64>,
    ns: i64,
    distinct_s: BTreeSet<String>,
    min_s: Option<String>,
    max_s: Option<String>,
    /// (id, v, s) of the group's rows
    rows: Vec<(i64, Option<i64>, Option<String>)>,
}
impl Acc {
    fn add(&mut self, r: &Row) {
        self.n += 1;
        self.rows.push((r.id, r.v, r.s.clone()));
        if let Some(v) = r.v {
            self.nv += 1;
            self.sum = Some(self.sum.unwrap_or(0) + v);
            self.min = Some(self.min.map_or(v, |m| m.min(v)));
            self.max = Some(self.max.map_or(v, |m| m.max(v)));
            self.distinct.insert(v);
        }
        if let Some(s) = &r.s {
            self.ns += 1;
            self.distinct_s.insert(s.clone());
            if self.min_s.as_ref().is_none_or(|m| s < m) {
                self.min_s = Some(s.clone());
            }
            if self.max_s.as_ref().is_none_or(|m| s > m) {
                self.max_s = Some(s.clone());
            }
        }
    }
}

fn cmp_opt<T: Ord>(a: &Option<T>, b: &Option<T>, desc: bool, nulls_first: bool) -> std::cmp::Ordering {
    use std::cmp::Ordering::*;
    match (a, b) {
        (None, None) => Equal,
        (None, Some(_)) => {
            if nulls_first { Less } else { Greater }
        }
        (Some(_), None) => {
            if nulls_first { Greater } else { Less }
        }
        (Some(x), Some(y)) => {
            if desc { y.cmp(x) } else { x.cmp(y) }
        }
    }
}

type GKey = (Option<KOrd>, Option<String>);

/// Groups `a` by the template's keys ("k" | "s" | "ks"); the value keeps one representative raw k
/// (for printing) next to the accumulator.
fn group(a: &[Row], keys: &str, kt: &str) -> BTreeMap<GKey, (Option<i32>, Acc)> {
    let mut groups: BTreeMap<GKey, (Option<i32>, Acc)> = BTreeMap::new();
    for r in a {
        let g: GKey = match keys {
            "k" => (kmap(kt, r.k), None),
            "s" => (None, r.s.clone()),
            _ => (kmap(kt, r.k), r.s.clone()),
        };
        let e = groups.entry(g).or_insert_with(|| (r.k, Acc::default()));
        e.1.add(r);
    }
    groups
}
fn key_cells(keys: &str, kt: &str, g: &GKey, raw_k: Option<i32>) -> Cells {
    // a group's printed key: bool keys collapse several raw k, so print from the mapped value
    let ktxt = match (&g.0, kt) {
        (None, _) => None,
        (Some(KOrd::I(b)), "bool") => Some((*b == 1).to_string()),
        _ => ktext(kt, raw_k),
    };
    match keys {
        "k" => vec![ktxt],
        "s" => vec![g.1.clone()],
        _ => vec![ktxt, g.1.clone()],
    }
}

fn sort_key_cmp(by: &str, kt: &str, x: &Row, y: &Row, desc: bool, nf: bool) -> std::cmp::Ordering {
    match by {
        "k" => cmp_opt(&kmap(kt, x.k), &kmap(kt, y.k), desc, nf),
        "s" => cmp_opt(&x.s, &y.s, desc, nf),
        _ => cmp_opt(&x.v, &y.v, desc, nf),
    }
}
fn full_row(kt: &str, vt: &str, r: &Row) -> Cells {
    vec![i(r.id), ktext(kt, r.k), r.s.clone(), vtext(vt, r.v)]
}
fn apply_limit(rows: Vec<Cells>, q: &Value) -> Option<Vec<Cells>> {
    let off = match q.get("offset") {
        Some(Value::Null) | None => 0,
        Some(n) => n.as_u64()? as usize,
    };
    let lim = match q.get("limit") {
        Some(Value::Null) | None => usize::MAX,
        Some(n) => n.as_u64()? as usize,
    };
    Some(rows.into_iter().skip(off).take(lim).collect())
}

/// For `Compare::LimitAny` / `Compare::TopTies`: the rows the result may be drawn from.
pub fn universe(q: &Value, a: &[Row], _b: &[Row]) -> Option<Vec<Cells>> {
    let t = q.get("t")?.as_str()?;
    let (kt, vt) = (kt_of(q), vt_of(q));
    Some(match t {
        "limit_any" => {
            let c = q.get("c")?.as_i64()?;
            a.iter().filter(|r| r.v.is_some_and(|v| v > c)).map(|r| vec![i(r.id)]).collect()
        }
        "distinct_limit" => group(a, "ks", kt).into_iter().map(|(g, (rk, _))| key_cells("ks", kt, &g, rk)).collect(),
        "topk_ties" => {
            let key = q.get("key")?.as_str()?;
            let agg = q.get("agg")?.as_str()?;
            group(a, key, kt)
                .into_iter()
                .map(|(g, (rk, acc))| {
                    let mut row = key_cells(key, kt, &g, rk);
                    row.push(vtext(vt, if agg == "min" { acc.min } else { acc.max }));
                    row
                })
                .collect()
        }
        _ => return None,
    })
}

/// Independent evaluation of the template over the raw rows; `None` if the template has no
/// reference (then the baseline configuration is the oracle). For `Compare::LimitAny` the returned
/// rows are one valid answer (only its length is used); for `Compare::TopTies` one valid answer.
pub fn reference(q: &Value, a: &[Row], b: &[Row]) -> Option<Vec<Cells>> {
    let t = q.get("t")?.as_str()?;
    let (kt, vt) = (kt_of(q), vt_of(q));
    kexpr(kt)?;
    vexpr(vt)?;
    let keq = |x: &Row, y: &Row, nulleq: bool| match (kmap(kt, x.k), kmap(kt, y.k)) {
        (Some(p), Some(q)) => p == q,
        (None, None) => nulleq,
        _ => false,
    };
    let seq = |x: &Row, y: &Row, nulleq: bool| match (&x.s, &y.s) {
        (Some(p), Some(q)) => p == q,
        (None, None) => nulleq,
        _ => false,
    };
    Some(match t {
        "join" => {
            let jt = q.get("jt")?.as_str()?;
            let key = q.get("key")?.as_str()?.to_string();
            let nulleq = q.get("nulleq")?.as_bool()?;
            let residual = q.get("residual")?.as_bool()?;
            join_reference(a, b, jt, |x, y| {
                (match key.as_str() {
                    "k" => keq(x, y, nulleq),
                    "s" => seq(x, y, nulleq),
                    _ => keq(x, y, nulleq) && seq(x, y, nulleq),
                }) && (!residual || v_less(x, y))
            })
        }
        "nlj" => join_reference(a, b, q.get("jt")?.as_str()?, v_less),
        "cross" => join_reference(a, b, "inner", |_, _| true),
        "recursive" => {
            let c = q.get("c")?.as_i64()?;
            let depth = q.get("depth")?.as_u64()?.min(3) as i64;
            let dedup = q.get("dedup")?.as_bool()?;
            // working table: (k, d) rows; UNION (without ALL) removes duplicates against everything seen
            let mut all: Vec<(Option<i32>, i64)> = vec![];
            let mut seen: BTreeSet<(Option<i32>, i64)> = BTreeSet::new();
            let mut work: Vec<(Option<i32>, i64)> = vec![];
            for r in a.iter().filter(|r| r.v.is_some_and(|v| v > c)) {
                let row = (r.k, 0);
                if !dedup || seen.insert(row) {
                    work.push(row);
                }
            }
            while !work.is_empty() {
                all.extend(work.iter().cloned());
                let mut next = vec![];
                for (k, d) in &work {
                    if *d >= depth {
                        continue;
                    }
                    let Some(k) = k else { continue };
                    for rb in b.iter().filter(|rb| rb.k == Some(*k)) {
                        let row = (rb.v.map(|v| (v.abs() % 7) as i32), d + 1);
                        if !dedup || seen.insert(row) {
                            next.push(row);
                        }
                    }
                }
                work = next;
                if all.len() > 2_000_000 {
                    return None;
                }
            }
            let mut counts: BTreeMap<(Option<i32>, i64), i64> = BTreeMap::new();
            for r in all {
                *counts.entry(r).or_insert(0) += 1;
            }
            counts.into_iter().map(|((k, d), n)| vec![k.map(|x| x.to_string()), i(d), i(n)]).collect()
        }
        "notin" => {
            let b_has_null = b.iter().any(|r| r.k.is_none());
            a.iter()
                .filter(|r| {
                    if b.is_empty() {
                        return true;
                    }
                    match r.k {
                        None => false,
                        Some(_) => !b_has_null && !b.iter().any(|x| keq(r, x, false)),
                    }
                })
                .map(|r| vec![i(r.id)])
                .collect()
        }
        "mark" => {
            let residual = q.get("residual")?.as_bool()?;
            let neg = q.get("neg")?.as_bool()?;
            let c = q.get("c")?.as_i64()?;
            a.iter()
                .filter(|r| {
                    let ex = b.iter().any(|x| keq(r, x, false) && (!residual || v_less(r, x)));
                    (ex != neg) || r.v.is_some_and(|v| v > c)
                })
                .map(|r| vec![i(r.id)])
                .collect()
        }
        "setop" => {
            let cols = q.get("cols")?.as_str()?;
            let op = q.get("op")?.as_str()?;
            let ga = group(a, cols, kt);
            let gb = group(b, cols, kt);
            let mut out = vec![];
            // (the ALL variants are left out: DataFusion plans INTERSECT ALL / EXCEPT ALL as plain semi /
            // anti joins, which keeps every copy of the left side - a question of SQL semantics (C01),
            // not of the join operators)
            for (g, (rk, _acc)) in &ga {
                let nb = gb.get(g).map_or(0, |x| x.1.n);
                let copies = match op {
                    "intersect" => (nb > 0) as i64,
                    "except" => (nb == 0) as i64,
                    _ => return None,
                };
                for _ in 0..copies {
                    out.push(key_cells(cols, kt, g, *rk));
                }
            }
            out
        }
        "groupby" => {
            let keys = q.get("keys")?.as_str()?;
            group(a, keys, kt)
                .into_iter()
                .map(|(g, (rk, acc))| {
                    let mut row = key_cells(keys, kt, &g, rk);
                    row.extend([i(acc.n), i(acc.nv), vtext(vt, acc.sum), vtext(vt, acc.min), vtext(vt, acc.max), i(acc.distinct.len() as i64)]);
                    row
                })
                .collect()
        }
        "groupby_filter" => {
            let keys = q.get("keys")?.as_str()?;
            let c = q.get("c")?.as_i64()?;
            // (count*, sum1, sumv) FILTER (v > c), count(*), max(v) FILTER (k IS NOT NULL)
            group(a, keys, kt)
                .into_iter()
                .map(|(g, (rk, acc))| {
                    let pass: Vec<i64> = acc.rows.iter().filter_map(|(_, v, _)| v.filter(|v| *v > c)).collect();
                    let mut row = key_cells(keys, kt, &g, rk);
                    let sum1 = if pass.is_empty() { None } else { Some(pass.len() as i64) };
                    let sumv = if pass.is_empty() { None } else { Some(pass.iter().sum::<i64>()) };
                    // `k IS NOT NULL` is a property of the row; rows of one group may differ in it only
                    // when k is not a grouping key
                    let maxv = a
                        .iter()
                        .filter(|r| {
                            let rg: GKey = match keys {
                                "k" => (kmap(kt, r.k), None),
                                "s" => (None, r.s.clone()),
                                _ => (kmap(kt, r.k), r.s.clone()),
                            };
                            rg == g && r.k.is_some()
                        })
                        .filter_map(|r| r.v)
                        .max();
                    row.extend([i(pass.len() as i64), oi(sum1), vtext(vt, sumv), i(acc.n), vtext(vt, maxv)]);
                    row
                })
                .collect()
        }
        "groupby_ord" => {
            let keys = q.get("keys")?.as_str()?;
            group(a, keys, kt)
                .into_iter()
                .map(|(g, (rk, mut acc))| {
                    acc.rows.sort_by_key(|r| r.0);
                    let mut row = key_cells(keys, kt, &g, rk);
                    let first = acc.rows.first().and_then(|r| r.1);
                    let last = acc.rows.last().and_then(|r| r.1);
                    let second = acc.rows.get(1).and_then(|r| r.1);
                    let strs: Vec<String> = acc.rows.iter().filter_map(|r| r.2.clone()).collect();
                    let joined = if strs.is_empty() { None } else { Some(strs.join("|")) };
                    row.extend([vtext(vt, first), vtext(vt, last), vtext(vt, second), joined, i(acc.n)]);
                    row
                })
                .collect()
        }
        "rollup" => {
            let sets: &[&str] = match q.get("kind")?.as_str()? {
                "rollup" => &["ks", "k", ""],
                "cube" => &["ks", "k", "s", ""],
                "sets" => &["k", "s", ""],
                _ => return None,
            };
            let mut out = vec![];
            for set in sets {
                if set.is_empty() {
                    // the grand total: one row, also over an empty table
                    let mut acc = Acc::default();
                    for r in a {
                        acc.add(r);
                    }
                    out.push(vec![None, None, i(acc.n), vtext(vt, acc.sum)]);
                    continue;
                }
                for (g, (rk, acc)) in group(a, set, kt) {
                    let kc = key_cells(set, kt, &g, rk);
                    let (kcell, scell) = match *set {
                        "k" => (kc[0].clone(), None),
                        "s" => (None, kc[0].clone()),
                        _ => (kc[0].clone(), kc[1].clone()),
                    };
                    out.push(vec![kcell, scell, i(acc.n), vtext(vt, acc.sum)]);
                }
            }
            out
        }
        "having" => {
            let keys = q.get("keys")?.as_str()?;
            let n = q.get("n")?.as_u64()? as i64;
            let c = q.get("c")?.as_i64()?;
            group(a, keys, kt)
                .into_iter()
                .filter(|(_, (_, acc))| acc.n > n && (acc.max.is_some_and(|m| m > c) || acc.min.is_none()))
                .map(|(g, (rk, acc))| {
                    let mut row = key_cells(keys, kt, &g, rk);
                    row.extend([i(acc.n), vtext(vt, acc.max)]);
                    row
                })
                .collect()
        }
        "distinct_aggs" => {
            let keys = q.get("keys")?.as_str()?;
            if !["k", "s"].contains(&keys) {
                return None;
            }
            let single = q.get("single")?.as_bool()?;
            group(a, keys, kt)
                .into_iter()
                .map(|(g, (rk, acc))| {
                    let mut row = key_cells(keys, kt, &g, rk);
                    if single {
                        let s = if acc.distinct.is_empty() { None } else { Some(acc.distinct.iter().sum::<i64>()) };
                        row.extend([i(acc.distinct.len() as i64), vtext(vt, s)]);
                    } else {
                        row.extend([i(acc.distinct.len() as i64), i(acc.distinct_s.len() as i64), i(acc.n)]);
                    }
                    row
                })
                .collect()
        }
        "groupby_str" => {
            let keys = q.get("keys")?.as_str()?;
            if !["k", "ks"].contains(&keys) {
                return None;
            }
            group(a, keys, kt)
                .into_iter()
                .map(|(g, (rk, acc))| {
                    let mut row = key_cells(keys, kt, &g, rk);
                    let pos: Vec<bool> = acc.rows.iter().filter_map(|r| r.1.map(|v| v > 0)).collect();
                    let band = if pos.is_empty() { None } else { Some(pos.iter().all(|x| *x).to_string()) };
                    let bor = if pos.is_empty() { None } else { Some(pos.iter().any(|x| *x).to_string()) };
                    row.extend([acc.min_s.clone(), acc.max_s.clone(), i(acc.ns), band, bor]);
                    row
                })
                .collect()
        }
        "topk_ties" => {
            let desc = q.get("desc")?.as_bool()?;
            let n = q.get("n")?.as_u64()? as usize;
            let mut u = universe(q, a, b)?;
            // order by the aggregate (last cell); its text is a number in every vt
            let num = |c: &Option<String>| c.as_ref().and_then(|s| s.parse::<f64>().ok()).map(|f| (f * 100.0).round() as i64);
            u.sort_by(|x, y| cmp_opt(&num(x.last().unwrap()), &num(y.last().unwrap()), desc, false));
            u.into_iter().take(n).collect()
        }
        "distinct_limit" => {
            let n = q.get("n")?.as_u64()? as usize;
            universe(q, a, b)?.into_iter().take(n).collect()
        }
        "limit_any" => {
            let n = q.get("n")?.as_u64()? as usize;
            let m = q.get("m")?.as_u64()? as usize;
            universe(q, a, b)?.into_iter().skip(m).take(n).collect()
        }
        "global" => {
            let mut acc = Acc::default();
            let mut ks = BTreeSet::new();
            for r in a {
                acc.add(r);
                if let Some(k) = kmap(kt, r.k) {
                    ks.insert(k);
                }
            }
            vec![vec![i(acc.n), i(acc.nv), vtext(vt, acc.sum), vtext(vt, acc.min), vtext(vt, acc.max), i(ks.len() as i64)]]
        }
        "distinct" => group(a, "ks", kt).into_iter().map(|(g, (rk, _))| key_cells("ks", kt, &g, rk)).collect(),
        "topk_agg" => {
            let n = q.get("n")?.as_u64()? as usize;
            let mut v: Vec<(GKey, Option<i32>, Option<i64>)> = group(a, "k", kt).into_iter().map(|(g, (rk, acc))| (g, rk, acc.max)).collect();
            v.sort_by(|x, y| cmp_opt(&x.2, &y.2, true, false).then(cmp_opt(&x.0.0, &y.0.0, false, false)));
            v.into_iter()
                .take(n)
                .map(|(g, rk, m)| {
                    let mut row = key_cells("k", kt, &g, rk);
                    row.push(vtext(vt, m));
                    row
                })
                .collect()
        }
        "sort1" => {
            let by = q.get("by")?.as_str()?.to_string();
            let desc = q.get("desc")?.as_bool()?;
            let nf = q.get("nulls_first")?.as_bool()?;
            let mut rows: Vec<&Row> = a.iter().collect();
            rows.sort_by(|x, y| sort_key_cmp(&by, kt, x, y, desc, nf));
            let cells: Vec<Cells> = rows
                .into_iter()
                .map(|r| {
                    vec![match by.as_str() {
                        "k" => match (kmap(kt, r.k), kt) {
                            (Some(KOrd::I(b)), "bool") => Some((b == 1).to_string()),
                            _ => ktext(kt, r.k),
                        },
                        "s" => r.s.clone(),
                        _ => vtext(vt, r.v),
                    }]
                })
                .collect();
            apply_limit(cells, q)?
        }
        "sort" => {
            let by = q.get("by")?.as_str()?.to_string();
            let desc = q.get("desc")?.as_bool()?;
            let nf = q.get("nulls_first")?.as_bool()?;
            let mut rows: Vec<&Row> = a.iter().collect();
            rows.sort_by(|x, y| sort_key_cmp(&by, kt, x, y, desc, nf).then(x.id.cmp(&y.id)));
            apply_limit(rows.into_iter().map(|r| full_row(kt, vt, r)).collect(), q)?
        }
        "sort2" => {
            let by: Vec<String> = q.get("by")?.as_array()?.iter().filter_map(|x| x.as_str().map(|s| s.to_string())).collect();
            let desc: Vec<bool> = q.get("desc")?.as_array()?.iter().filter_map(|x| x.as_bool()).collect();
            let nf: Vec<bool> = q.get("nulls_first")?.as_array()?.iter().filter_map(|x| x.as_bool()).collect();
            if by.len() != 2 || desc.len() != 2 || nf.len() != 2 {
                return None;
            }
            let mut rows: Vec<&Row> = a.iter().collect();
            rows.sort_by(|x, y| {
                sort_key_cmp(&by[0], kt, x, y, desc[0], nf[0]).then(sort_key_cmp(&by[1], kt, x, y, desc[1], nf[1])).then(x.id.cmp(&y.id))
            });
            apply_limit(rows.into_iter().map(|r| full_row(kt, vt, r)).collect(), q)?
        }
        "window_topn" => {
            let f = q.get("f")?.as_str()?;
            let desc = q.get("desc")?.as_bool()?;
            let nf = q.get("nulls_first")?.as_bool()?;
            let n = q.get("n")?.as_u64()? as i64;
            let mut parts: BTreeMap<Option<KOrd>, Vec<&Row>> = BTreeMap::new();
            for r in a {
                parts.entry(kmap(kt, r.k)).or_default().push(r);
            }
            let ordered = q.get("ordered").and_then(|x| x.as_bool()).unwrap_or(false);
            let mut out = vec![];
            // (BTreeMap order of Option<KOrd> is NULL first; the outer ORDER BY asks for NULLS LAST)
            let mut parts: Vec<(Option<KOrd>, Vec<&Row>)> = parts.into_iter().collect();
            if ordered {
                parts.sort_by(|x, y| cmp_opt(&x.0, &y.0, false, false));
            }
            for (_, mut rows) in parts {
                rows.sort_by(|x, y| cmp_opt(&x.v, &y.v, desc, nf).then(x.id.cmp(&y.id)));
                let (mut rank, mut dense) = (0i64, 0i64);
                for (idx, r) in rows.iter().enumerate() {
                    let new_peer = idx == 0 || rows[idx - 1].v != r.v;
                    if new_peer {
                        rank = idx as i64 + 1;
                        dense += 1;
                    }
                    let rn = match f {
                        "row_number" => idx as i64 + 1,
                        "rank" => rank,
                        "dense_rank" => dense,
                        _ => return None,
                    };
                    if rn <= n {
                        let ktxt = match (kmap(kt, r.k), kt) {
                            (Some(KOrd::I(b)), "bool") => Some((b == 1).to_string()),
                            _ => ktext(kt, r.k),
                        };
                        out.push(vec![i(r.id), ktxt, vtext(vt, r.v), i(rn)]);
                    }
                }
            }
            out
        }
        "union_sorted" => {
            let desc = q.get("desc")?.as_bool()?;
            let mut rows: Vec<&Row> = a.iter().chain(b.iter()).collect();
            rows.sort_by(|x, y| cmp_opt(&kmap(kt, x.k), &kmap(kt, y.k), desc, false).then(x.id.cmp(&y.id)));
            let cells = rows
                .into_iter()
                .map(|r| {
                    vec![
                        i(r.id),
                        match (kmap(kt, r.k), kt) {
                            (Some(KOrd::I(b)), "bool") => Some((b == 1).to_string()),
                            _ => ktext(kt, r.k),
                        },
                    ]
                })
                .collect();
            apply_limit(cells, q)?
        }
        _ => return None,
    })
}

fn oi(x: Option<i64>) -> Option<String> {
    x.map(|v| v.to_string())
}
