//! Query templates over tables a, b (schema id, k, s, v) with independent reference evaluators.
//! References exist for joins, grouped aggregation, DISTINCT and sorts (C05/C06/C08); the other
//! templates are compared with the baseline configuration (C02).

use crate::data::Row;
use crate::sqlsim::Cells;
use dst_common::rng::Rng;
use serde_json::{Value, json};
use std::collections::BTreeMap;

#[derive(Clone, Copy, PartialEq)]
pub enum Family {
    Join,
    Agg,
    Sort,
    Any,
}

pub fn generate(rng: &mut Rng, fam: Family) -> Value {
    let fam = if fam == Family::Any {
        match rng.below(10) {
            0 | 1 | 2 => Family::Join,
            3 | 4 => Family::Agg,
            5 | 6 => Family::Sort,
            _ => Family::Any,
        }
    } else {
        fam
    };
    match fam {
        Family::Join => match rng.below(10) {
            0 => json!({"t": "nlj", "jt": *rng.pick(&["inner", "left", "right", "full", "semi", "anti", "rsemi", "ranti"])}),
            1 => json!({"t": "cross"}),
            2 => json!({"t": "notin"}),
            _ => json!({
                "t": "join",
                "jt": *rng.pick(&["inner", "inner", "left", "right", "full", "semi", "anti", "rsemi", "ranti"]),
                "residual": rng.chance(1, 3),
                "nulleq": rng.chance(1, 5),
                "key": *rng.pick(&["k", "k", "s", "ks"]),
            }),
        },
        Family::Agg => match rng.below(8) {
            0 => json!({"t": "global"}),
            1 => json!({"t": "distinct"}),
            2 => json!({"t": "topk_agg", "n": rng.range(1, 4)}),
            3 | 4 => json!({"t": "groupby_filter", "keys": *rng.pick(&["k", "s", "ks"]), "c": rng.below(300) as i64 - 100}),
            _ => json!({"t": "groupby", "keys": *rng.pick(&["k", "k", "s", "ks"])}),
        },
        Family::Sort if rng.chance(1, 3) => json!({
            // single-column key (primitive / string cursors instead of the row format); only the key
            // is projected, so ties are indistinguishable and the sequence is still determined
            "t": "sort1",
            "by": *rng.pick(&["s", "s", "k", "v"]),
            "desc": rng.chance(1, 2),
            "nulls_first": rng.chance(1, 2),
            "limit": if rng.chance(1, 3) { json!(rng.range(0, 12)) } else { Value::Null },
        }),
        Family::Sort => json!({
            "t": "sort",
            "by": *rng.pick(&["k", "k", "s", "v"]),
            "desc": rng.chance(1, 2),
            "nulls_first": rng.chance(1, 2),
            "limit": if rng.chance(1, 2) { json!(rng.range(0, 12)) } else { Value::Null },
        }),
        Family::Any => match rng.below(11) {
            9 | 10 => json!({"t": "groupby_avg", "keys": *rng.pick(&["k", "s", "ks"]), "c": rng.below(300) as i64 - 100}),
            0 => json!({"t": "filter", "c": rng.below(400) as i64 - 100}),
            1 => json!({"t": "union_all"}),
            2 => json!({"t": "union"}),
            3 => json!({"t": "window_sum"}),
            4 => json!({"t": "window_rn"}),
            5 => json!({"t": "join_agg"}),
            6 => json!({"t": "in_subquery"}),
            7 => json!({"t": "scalar_subquery"}),
            _ => json!({"t": "limit", "n": rng.range(0, 10), "m": rng.range(0, 5)}),
        },
    }
}

fn key_cond(key: &str, nulleq: bool) -> Option<String> {
    let op = if nulleq { "IS NOT DISTINCT FROM" } else { "=" };
    Some(match key {
        // (parenthesised: `x IS NOT DISTINCT FROM y AND ...` would otherwise parse as `x IS NOT DISTINCT FROM (y AND ...)`)
        "k" => format!("(a.k {op} b.k)"),
        "s" => format!("(a.s {op} b.s)"),
        "ks" => format!("(a.k {op} b.k) AND (a.s {op} b.s)"),
        _ => return None,
    })
}

pub fn sql(q: &Value) -> Option<String> {
    let t = q.get("t")?.as_str()?;
    Some(match t {
        "join" => {
            let jt = q.get("jt")?.as_str()?;
            let mut cond = key_cond(q.get("key")?.as_str()?, q.get("nulleq")?.as_bool()?)?;
            if q.get("residual")?.as_bool()? {
                cond.push_str(" AND a.v < b.v");
            }
            match jt {
                "inner" | "left" | "right" | "full" => {
                    format!("SELECT a.id, b.id FROM a {} JOIN b ON {cond}", jt.to_uppercase())
                }
                "semi" => format!("SELECT a.id FROM a LEFT SEMI JOIN b ON {cond}"),
                "anti" => format!("SELECT a.id FROM a LEFT ANTI JOIN b ON {cond}"),
                "rsemi" => format!("SELECT b.id FROM a RIGHT SEMI JOIN b ON {cond}"),
                "ranti" => format!("SELECT b.id FROM a RIGHT ANTI JOIN b ON {cond}"),
                _ => return None,
            }
        }
        "nlj" => {
            let jt = q.get("jt")?.as_str()?;
            match jt {
                "inner" | "left" | "right" | "full" => format!("SELECT a.id, b.id FROM a {} JOIN b ON a.v < b.v", jt.to_uppercase()),
                "semi" => "SELECT a.id FROM a LEFT SEMI JOIN b ON a.v < b.v".to_string(),
                "anti" => "SELECT a.id FROM a LEFT ANTI JOIN b ON a.v < b.v".to_string(),
                "rsemi" => "SELECT b.id FROM a RIGHT SEMI JOIN b ON a.v < b.v".to_string(),
                "ranti" => "SELECT b.id FROM a RIGHT ANTI JOIN b ON a.v < b.v".to_string(),
                _ => return None,
            }
        }
        "cross" => "SELECT a.id, b.id FROM a CROSS JOIN b".to_string(),
        "notin" => "SELECT id FROM a WHERE k NOT IN (SELECT k FROM b)".to_string(),
        "groupby" => {
            let keys = match q.get("keys")?.as_str()? {
                "k" => "k",
                "s" => "s",
                "ks" => "k, s",
                _ => return None,
            };
            format!("SELECT {keys}, count(*), count(v), sum(v), min(v), max(v), count(DISTINCT v) FROM a GROUP BY {keys}")
        }
        "groupby_filter" => {
            let keys = match q.get("keys")?.as_str()? {
                "k" => "k",
                "s" => "s",
                "ks" => "k, s",
                _ => return None,
            };
            let c = q.get("c")?.as_i64()?;
            format!(
                "SELECT {keys}, count(*) FILTER (WHERE v > {c}), sum(1) FILTER (WHERE v > {c}), sum(v) FILTER (WHERE v > {c}), count(*), max(v) FILTER (WHERE k IS NOT NULL) FROM a GROUP BY {keys}"
            )
        }
        "groupby_avg" => {
            let keys = match q.get("keys")?.as_str()? {
                "k" => "k",
                "s" => "s",
                "ks" => "k, s",
                _ => return None,
            };
            let c = q.get("c")?.as_i64()?;
            // (small integers: the float average is exact, so it cannot depend on the summation order)
            format!("SELECT {keys}, avg(v), avg(v) FILTER (WHERE v > {c}), count(v), min(s), max(s) FROM a GROUP BY {keys}")
        }
        "global" => "SELECT count(*), count(v), sum(v), min(v), max(v), count(DISTINCT k) FROM a".to_string(),
        "distinct" => "SELECT DISTINCT k, s FROM a".to_string(),
        "topk_agg" => format!(
            "SELECT k, max(v) FROM a GROUP BY k ORDER BY max(v) DESC NULLS LAST, k NULLS LAST LIMIT {}",
            q.get("n")?.as_u64()?
        ),
        "sort" => {
            let by = q.get("by")?.as_str()?;
            if !["k", "s", "v"].contains(&by) {
                return None;
            }
            let dir = if q.get("desc")?.as_bool()? { "DESC" } else { "ASC" };
            let nulls = if q.get("nulls_first")?.as_bool()? { "NULLS FIRST" } else { "NULLS LAST" };
            let limit = match q.get("limit") {
                Some(Value::Null) | None => String::new(),
                Some(n) => format!(" LIMIT {}", n.as_u64()?),
            };
            format!("SELECT id, k, s, v FROM a ORDER BY {by} {dir} {nulls}, id{limit}")
        }
        "sort1" => {
            let by = q.get("by")?.as_str()?;
            if !["k", "s", "v"].contains(&by) {
                return None;
            }
            let dir = if q.get("desc")?.as_bool()? { "DESC" } else { "ASC" };
            let nulls = if q.get("nulls_first")?.as_bool()? { "NULLS FIRST" } else { "NULLS LAST" };
            let limit = match q.get("limit") {
                Some(Value::Null) | None => String::new(),
                Some(n) => format!(" LIMIT {}", n.as_u64()?),
            };
            format!("SELECT {by} FROM a ORDER BY {by} {dir} {nulls}{limit}")
        }
        "filter" => format!("SELECT id, k, s, v FROM a WHERE v > {} OR k IS NULL", q.get("c")?.as_i64()?),
        "union_all" => "SELECT id, k FROM a UNION ALL SELECT id, k FROM b".to_string(),
        "union" => "SELECT k FROM a UNION SELECT k FROM b".to_string(),
        "window_sum" => "SELECT id, sum(v) OVER (PARTITION BY k ORDER BY id ROWS BETWEEN 1 PRECEDING AND CURRENT ROW) AS w FROM a".to_string(),
        "window_rn" => "SELECT id, row_number() OVER (PARTITION BY k ORDER BY id) AS rn FROM a".to_string(),
        "join_agg" => "SELECT a.k, count(*), sum(b.v) FROM a JOIN b ON a.k = b.k GROUP BY a.k".to_string(),
        "in_subquery" => "SELECT id FROM a WHERE k IN (SELECT k FROM b WHERE v > 0)".to_string(),
        "scalar_subquery" => "SELECT id FROM a WHERE v > (SELECT max(v) - 200 FROM b)".to_string(),
        "limit" => format!("SELECT id FROM a ORDER BY id LIMIT {} OFFSET {}", q.get("n")?.as_u64()?, q.get("m")?.as_u64()?),
        _ => return None,
    })
}

pub fn uses_b(q: &Value) -> bool {
    matches!(
        q.get("t").and_then(|t| t.as_str()).unwrap_or(""),
        "join" | "nlj" | "cross" | "notin" | "union_all" | "union" | "join_agg" | "in_subquery" | "scalar_subquery"
    )
}

/// Whether the result is a sequence (total ORDER BY) rather than a multiset.
pub fn ordered(q: &Value) -> bool {
    matches!(q.get("t").and_then(|t| t.as_str()).unwrap_or(""), "sort" | "sort1" | "topk_agg" | "limit")
}

fn i(x: i64) -> Option<String> {
    Some(x.to_string())
}
fn oi(x: Option<i64>) -> Option<String> {
    x.map(|v| v.to_string())
}

fn keys_match(a: &Row, b: &Row, key: &str, nulleq: bool) -> bool {
    let eq_k = match (a.k, b.k) {
        (Some(x), Some(y)) => x == y,
        (None, None) => nulleq,
        _ => false,
    };
    let eq_s = match (&a.s, &b.s) {
        (Some(x), Some(y)) => x == y,
        (None, None) => nulleq,
        _ => false,
    };
    match key {
        "k" => eq_k,
        "s" => eq_s,
        _ => eq_k && eq_s,
    }
}
fn v_less(a: &Row, b: &Row) -> bool {
    matches!((a.v, b.v), (Some(x), Some(y)) if x < y)
}

fn join_reference(a: &[Row], b: &[Row], jt: &str, m: impl Fn(&Row, &Row) -> bool) -> Vec<Cells> {
    let mut out = vec![];
    let mut b_matched = vec![false; b.len()];
    for ra in a {
        let mut any = false;
        for (j, rb) in b.iter().enumerate() {
            if m(ra, rb) {
                any = true;
                b_matched[j] = true;
                if matches!(jt, "inner" | "left" | "right" | "full") {
                    out.push(vec![i(ra.id), i(rb.id)]);
                }
            }
        }
        match jt {
            "left" | "full" if !any => out.push(vec![i(ra.id), None]),
            "semi" if any => out.push(vec![i(ra.id)]),
            "anti" if !any => out.push(vec![i(ra.id)]),
            _ => {}
        }
    }
    for (j, rb) in b.iter().enumerate() {
        match jt {
            "right" | "full" if !b_matched[j] => out.push(vec![None, i(rb.id)]),
            "rsemi" if b_matched[j] => out.push(vec![i(rb.id)]),
            "ranti" if !b_matched[j] => out.push(vec![i(rb.id)]),
            _ => {}
        }
    }
    out
}

#[derive(Default)]
struct Acc {
    n: i64,
    nv: i64,
    sum: Option<i64>,
    min: Option<i64>,
    max: Option<i64>,
    distinct: std::collections::BTreeSet<i64>,
}
impl Acc {
    fn add(&mut self, r: &Row) {
        self.n += 1;
        if let Some(v) = r.v {
            self.nv += 1;
            self.sum = Some(self.sum.unwrap_or(0) + v);
            self.min = Some(self.min.map_or(v, |m| m.min(v)));
            self.max = Some(self.max.map_or(v, |m| m.max(v)));
            self.distinct.insert(v);
        }
    }
}

fn cmp_opt<T: Ord>(a: &Option<T>, b: &Option<T>, desc: bool, nulls_first: bool) -> std::cmp::Ordering {
    use std::cmp::Ordering::*;
    match (a, b) {
        (None, None) => Equal,
        (None, Some(_)) => {
            if nulls_first { Less } else { Greater }
        }
        (Some(_), None) => {
            if nulls_first { Greater } else { Less }
        }
        (Some(x), Some(y)) => {
            if desc { y.cmp(x) } else { x.cmp(y) }
        }
    }
}

/// Independent evaluation of the template over the raw rows; `None` if the template has no
/// reference (then the baseline configuration is the oracle).
pub fn reference(q: &Value, a: &[Row], b: &[Row]) -> Option<Vec<Cells>> {
    let t = q.get("t")?.as_str()?;
    Some(match t {
        "join" => {
            let jt = q.get("jt")?.as_str()?;
            let key = q.get("key")?.as_str()?.to_string();
            let nulleq = q.get("nulleq")?.as_bool()?;
            let residual = q.get("residual")?.as_bool()?;
            join_reference(a, b, jt, |x, y| keys_match(x, y, &key, nulleq) && (!residual || v_less(x, y)))
        }
        "nlj" => join_reference(a, b, q.get("jt")?.as_str()?, v_less),
        "cross" => join_reference(a, b, "inner", |_, _| true),
        "notin" => {
            let b_has_null = b.iter().any(|r| r.k.is_none());
            a.iter()
                .filter(|r| {
                    if b.is_empty() {
                        return true;
                    }
                    match r.k {
                        None => false,
                        Some(k) => !b_has_null && !b.iter().any(|x| x.k == Some(k)),
                    }
                })
                .map(|r| vec![i(r.id)])
                .collect()
        }
        "groupby" => {
            let keys = q.get("keys")?.as_str()?;
            let mut groups: BTreeMap<(Option<i32>, Option<String>), Acc> = BTreeMap::new();
            for r in a {
                let k = match keys {
                    "k" => (r.k, None),
                    "s" => (None, r.s.clone()),
                    _ => (r.k, r.s.clone()),
                };
                groups.entry(k).or_default().add(r);
            }
            groups
                .into_iter()
                .map(|((k, s), acc)| {
                    let mut row: Cells = match keys {
                        "k" => vec![k.map(|x| x.to_string())],
                        "s" => vec![s],
                        _ => vec![k.map(|x| x.to_string()), s],
                    };
                    row.extend([i(acc.n), i(acc.nv), oi(acc.sum), oi(acc.min), oi(acc.max), i(acc.distinct.len() as i64)]);
                    row
                })
                .collect()
        }
        "groupby_filter" => {
            let keys = q.get("keys")?.as_str()?;
            let c = q.get("c")?.as_i64()?;
            // (count*, sum1, sumv) FILTER (v > c), count(*), max(v) FILTER (k IS NOT NULL)
            let mut groups: BTreeMap<(Option<i32>, Option<String>), (i64, Option<i64>, Option<i64>, i64, Option<i64>)> = BTreeMap::new();
            for r in a {
                let k = match keys {
                    "k" => (r.k, None),
                    "s" => (None, r.s.clone()),
                    _ => (r.k, r.s.clone()),
                };
                let e = groups.entry(k).or_insert((0, None, None, 0, None));
                e.3 += 1;
                if let Some(v) = r.v {
                    if v > c {
                        e.0 += 1;
                        e.1 = Some(e.1.unwrap_or(0) + 1);
                        e.2 = Some(e.2.unwrap_or(0) + v);
                    }
                    if r.k.is_some() {
                        e.4 = Some(e.4.map_or(v, |m: i64| m.max(v)));
                    }
                }
            }
            groups
                .into_iter()
                .map(|((k, s), e)| {
                    let mut row: Cells = match keys {
                        "k" => vec![k.map(|x| x.to_string())],
                        "s" => vec![s],
                        _ => vec![k.map(|x| x.to_string()), s],
                    };
                    row.extend([i(e.0), oi(e.1), oi(e.2), i(e.3), oi(e.4)]);
                    row
                })
                .collect()
        }
        "global" => {
            let mut acc = Acc::default();
            let mut ks = std::collections::BTreeSet::new();
            for r in a {
                acc.add(r);
                if let Some(k) = r.k {
                    ks.insert(k);
                }
            }
            vec![vec![i(acc.n), i(acc.nv), oi(acc.sum), oi(acc.min), oi(acc.max), i(ks.len() as i64)]]
        }
        "distinct" => {
            let set: std::collections::BTreeSet<(Option<i32>, Option<String>)> = a.iter().map(|r| (r.k, r.s.clone())).collect();
            set.into_iter().map(|(k, s)| vec![k.map(|x| x.to_string()), s]).collect()
        }
        "topk_agg" => {
            let n = q.get("n")?.as_u64()? as usize;
            let mut groups: BTreeMap<Option<i32>, Option<i64>> = BTreeMap::new();
            for r in a {
                let e = groups.entry(r.k).or_insert(None);
                if let Some(v) = r.v {
                    *e = Some(e.map_or(v, |m| m.max(v)));
                }
            }
            let mut v: Vec<(Option<i32>, Option<i64>)> = groups.into_iter().collect();
            v.sort_by(|x, y| cmp_opt(&x.1, &y.1, true, false).then(cmp_opt(&x.0, &y.0, false, false)));
            v.into_iter().take(n).map(|(k, m)| vec![k.map(|x| x.to_string()), oi(m)]).collect()
        }
        "sort1" => {
            let by = q.get("by")?.as_str()?.to_string();
            let desc = q.get("desc")?.as_bool()?;
            let nf = q.get("nulls_first")?.as_bool()?;
            let limit = match q.get("limit") {
                Some(Value::Null) | None => usize::MAX,
                Some(n) => n.as_u64()? as usize,
            };
            let mut vals: Vec<Option<String>> = vec![];
            match by.as_str() {
                "k" => {
                    let mut x: Vec<Option<i32>> = a.iter().map(|r| r.k).collect();
                    x.sort_by(|p, q| cmp_opt(p, q, desc, nf));
                    vals.extend(x.into_iter().map(|v| v.map(|y| y.to_string())));
                }
                "v" => {
                    let mut x: Vec<Option<i64>> = a.iter().map(|r| r.v).collect();
                    x.sort_by(|p, q| cmp_opt(p, q, desc, nf));
                    vals.extend(x.into_iter().map(|v| v.map(|y| y.to_string())));
                }
                _ => {
                    let mut x: Vec<Option<String>> = a.iter().map(|r| r.s.clone()).collect();
                    x.sort_by(|p, q| cmp_opt(p, q, desc, nf));
                    vals.extend(x);
                }
            }
            vals.into_iter().take(limit).map(|v| vec![v]).collect()
        }
        "sort" => {
            let by = q.get("by")?.as_str()?.to_string();
            let desc = q.get("desc")?.as_bool()?;
            let nf = q.get("nulls_first")?.as_bool()?;
            let mut rows: Vec<&Row> = a.iter().collect();
            rows.sort_by(|x, y| {
                let c = match by.as_str() {
                    "k" => cmp_opt(&x.k, &y.k, desc, nf),
                    "s" => cmp_opt(&x.s, &y.s, desc, nf),
                    _ => cmp_opt(&x.v, &y.v, desc, nf),
                };
                c.then(x.id.cmp(&y.id))
            });
            let limit = match q.get("limit") {
                Some(Value::Null) | None => usize::MAX,
                Some(n) => n.as_u64()? as usize,
            };
            rows.into_iter()
                .take(limit)
                .map(|r| vec![i(r.id), r.k.map(|x| x.to_string()), r.s.clone(), oi(r.v)])
                .collect()
        }
        _ => return None,
    })
}
