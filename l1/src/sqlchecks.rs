//! Check definitions built on the shared session-level scenario.
use crate::queries::Family;
use crate::runner::Check;
use crate::sqlcheck::{Mode, SqlScenario};
use serde_json::json;

const SQL_REAL: &[&str] = &[
    "datafusion-sql parser/planner", "datafusion-optimizer (logical)", "datafusion-physical-optimizer (incl. EnforceDistribution/EnforceSorting/EnsureCooperative)",
    "datafusion-physical-plan operators (joins, aggregates, sorts, windows, unions, limits, repartition, coalesce)", "datafusion-execution (TaskContext, memory pools, DiskManager custom mode)",
    "common-runtime SpawnedTask/JoinSet", "tokio current_thread runtime with paused clock",
];
const SQL_STUB: &[&str] = &[
    "table partitions: SimTable -> SimSourceExec scripts (batches, Pending, virtual delays, injected errors/panics)",
    "memory: NeighbourPool over the real Greedy/FairSpill pool", "disk: SimDisk (in-memory, scripted faults)",
];

fn components() -> serde_json::Value {
    json!({"real": SQL_REAL, "stub": SQL_STUB})
}

const L1_ASSUME: &[&str] = &[
    "a task poll is atomic (synchronous races are covered at L2 for channels, spill pool and memory pools)",
    "data is small Int32/Int64/Utf8 with NULLs and duplicate keys; other types are outside this check",
];

pub fn c02() -> Check {
    Check {
        property: "C02",
        level: "exploration",
        scenarios: vec![
            Box::new(SqlScenario { name: "c02-sql", family: Family::Any, mode: Mode::Exact, need_reference: false, weight: 3, dynamic_filters: false, nlj_focus: false, tight_sort: false, file_tables: false, ordered_agg: false }),
            Box::new(SqlScenario { name: "c02-files", family: Family::Any, mode: Mode::Exact, need_reference: false, weight: 1, dynamic_filters: false, nlj_focus: false, tight_sort: false, file_tables: true, ordered_agg: false }),
        ],
        cases_quick: 16_000,
        cases_thorough: 400_000,
        rule: "runs: one generated SQL query (joins of every type, semi/anti/NOT IN, nested-loop, cross, GROUP BY, DISTINCT, ORDER BY/LIMIT, UNION [ALL], window functions, IN/scalar subqueries, join+aggregate) over two generated tables split into 1-4 scripted partitions, under a random semantic-neutral configuration (target_partitions 1-8, batch_size 1-8192, join/aggregate/sort/window repartitioning switches, hash-join thresholds, partial-aggregation skipping, dynamic filters, sort pushdown, coalescing, ...), 1-3 copies of the query running concurrently in one session, one scheduler policy per run; result compared with an independent reference evaluator where one exists, otherwise with the baseline configuration (single partition MemTable, defaults). distinct = distinct poll traces; non-trivial = a scheduling decision had >= 2 runnable tasks or a refusal/fault fired",
        assumptions: L1_ASSUME.to_vec(),
        components: components(),
    }
}

fn exact(property: &'static str, name: &'static str, family: Family, rule: &'static str) -> Check {
    Check {
        property,
        level: "exploration",
        scenarios: vec![Box::new(SqlScenario { name, family, mode: Mode::Exact, need_reference: true, weight: 2, dynamic_filters: false, nlj_focus: false, tight_sort: false, file_tables: false, ordered_agg: false })],
        cases_quick: 16_000,
        cases_thorough: 400_000,
        rule,
        assumptions: L1_ASSUME.to_vec(),
        components: components(),
    }
}

pub fn c05() -> Check {
    let mut c = c05_base();
    c.scenarios.push(Box::new(crate::c05ops::SymmetricHashJoin));
    // non-equi joins whose left side needs several chunks under a small limit (the nested loop join's
    // memory-limited fallback: spilled left side, replayed right side, per-pass and global bitmaps)
    c.scenarios.push(Box::new(SqlScenario { name: "c05-nlj-fallback", family: Family::Join, mode: Mode::Exact, need_reference: true, weight: 1, dynamic_filters: false, nlj_focus: true, tight_sort: false, file_tables: false, ordered_agg: false }));
    c.cases_quick = 24_000;
    c
}
fn c05_base() -> Check {
    exact("C05", "c05-joins", Family::Join, "runs: one generated join query (INNER/LEFT/RIGHT/FULL/LEFT SEMI/LEFT ANTI/RIGHT SEMI/RIGHT ANTI on k, s or (k,s), optional residual a.v<b.v, optional IS NOT DISTINCT FROM; non-equi joins; CROSS JOIN; NOT IN) over generated tables in 1-4 scripted partitions; the planner picks HashJoin (CollectLeft/Partitioned), SortMergeJoin, NestedLoopJoin, PiecewiseMergeJoin or CrossJoin from the generated configuration; a third of the runs under a bounded pool; result multiset compared with a nested-loop reference with SQL three-valued logic. distinct/non-trivial as for C02")
}
pub fn c06() -> Check {
    let mut c = c06_base();
    c.scenarios.push(Box::new(SqlScenario { name: "c06-ordered", family: Family::Agg, mode: Mode::Exact, need_reference: true, weight: 2, dynamic_filters: false, nlj_focus: false, tight_sort: false, file_tables: false, ordered_agg: true }));
    c.cases_quick = 24_000;
    c
}
fn c06_base() -> Check {
    exact("C06", "c06-aggregates", Family::Agg, "runs: one generated aggregation (GROUP BY k | s | k,s with count(*), count, sum, min, max, count(DISTINCT); global aggregate; SELECT DISTINCT; grouped TopK with ORDER BY agg LIMIT n) over generated tables in 1-4 scripted partitions; single / partial+final / repartitioned strategies, partial-aggregation skipping thresholds and TopK aggregation chosen by the generated configuration, a third of the runs under a bounded pool (spill-and-merge); compared with a reference GROUP BY. distinct/non-trivial as for C02")
}
pub fn c08() -> Check {
    let mut c = c08_base();
    c.scenarios.push(Box::new(SqlScenario { name: "c08-sorts-tight", family: Family::Sort, mode: Mode::Exact, need_reference: true, weight: 1, dynamic_filters: false, nlj_focus: false, tight_sort: true, file_tables: false, ordered_agg: false }));
    // the plans' sort-family nodes (SortExec, SortPreservingMergeExec, PartialSortExec, PartitionedTopKExec)
    // observed through taps: each partition stream must be in the order the node declares
    c.scenarios.push(Box::new(crate::c53::Metrics { declared_order: true }));
    c.scenarios.push(Box::new(crate::c08ops::PartitionedTopK));
    c.cases_quick = 28_000;
    c
}
fn c08_base() -> Check {
    exact("C08", "c08-sorts", Family::Sort, "runs: ORDER BY k|s|v ASC/DESC NULLS FIRST/LAST with id tie-break, with and without LIMIT (TopK), over generated tables in 1-4 scripted partitions; in-memory, spilling (bounded pool, tiny spill files, multi-level merge) and sort-preserving merges chosen by configuration; exact sequence compared with a reference stable sort. distinct/non-trivial as for C02")
}

pub fn c18() -> Check {
    Check {
        property: "C18",
        level: "exploration",
        scenarios: vec![
            Box::new(SqlScenario { name: "c18-sorts", family: Family::Sort, mode: Mode::Pressure, need_reference: true, weight: 2, dynamic_filters: false, nlj_focus: false, tight_sort: false, file_tables: false, ordered_agg: false }),
            Box::new(SqlScenario { name: "c18-aggregates", family: Family::Agg, mode: Mode::Pressure, need_reference: true, weight: 2, dynamic_filters: false, nlj_focus: false, tight_sort: false, file_tables: false, ordered_agg: false }),
            Box::new(SqlScenario { name: "c18-joins", family: Family::Join, mode: Mode::Pressure, need_reference: true, weight: 2, dynamic_filters: false, nlj_focus: false, tight_sort: false, file_tables: false, ordered_agg: false }),
            Box::new(SqlScenario { name: "c18-any", family: Family::Any, mode: Mode::Pressure, need_reference: false, weight: 1, dynamic_filters: false, nlj_focus: false, tight_sort: false, file_tables: false, ordered_agg: false }),
            Box::new(SqlScenario { name: "c18-nlj", family: Family::Join, mode: Mode::Pressure, need_reference: true, weight: 1, dynamic_filters: false, nlj_focus: true, tight_sort: false, file_tables: false, ordered_agg: false }),
            Box::new(SqlScenario { name: "c18-aggregates-ordered", family: Family::Agg, mode: Mode::Pressure, need_reference: true, weight: 1, dynamic_filters: false, nlj_focus: false, tight_sort: false, file_tables: false, ordered_agg: true }),
            Box::new(SqlScenario { name: "c18-sorts-tight", family: Family::Sort, mode: Mode::Pressure, need_reference: true, weight: 2, dynamic_filters: false, nlj_focus: false, tight_sort: true, file_tables: false, ordered_agg: false }),
        ],
        cases_quick: 32_000,
        cases_thorough: 400_000,
        rule: "runs: generated queries (sort/top-k, grouped aggregation, all join kinds, windows, unions, DISTINCT) under a bounded Greedy or FairSpill pool with limits from 0 bytes to ample, optional noisy neighbour, spill compression none/lz4/zstd, tiny spill files, randomised sort spill reservation; outcome must equal the unlimited-memory expectation (reference evaluator or baseline) or fail with ResourcesExhausted anywhere in the error chain; never panic or hang; afterwards pool 0 bytes, no spill file, no live task or input stream. distinct/non-trivial as for C02",
        assumptions: L1_ASSUME.to_vec(),
        components: components(),
    }
}

pub fn c19() -> Check {
    Check {
        property: "C19",
        level: "fault_enumeration",
        scenarios: vec![
            Box::new(SqlScenario { name: "c19-drop", family: Family::Any, mode: Mode::Drop, need_reference: false, weight: 3, dynamic_filters: false, nlj_focus: false, tight_sort: false, file_tables: false, ordered_agg: false }),
            Box::new(crate::c19::YieldRepartition),
            Box::new(crate::c19::YieldSql),
            Box::new(crate::c19::YieldPlan),
        ],
        cases_quick: 16_000,
        cases_thorough: 400_000,
        rule: "runs: generated queries executed through the real planner, whose output stream is dropped before the first poll or after 1..3 batches (drop point swept by the generator), merged stream or per-partition consumption; afterwards the simulator runs the system to quiescence and checks: no live background task, every input stream released, pool 0 bytes, no spill file. c19-yield-repartition / c19-yield-sql (2 of 5 runs): an always-ready ENDLESS input (non-cooperative leaf) under RepartitionExec (hash with outputs that never receive a row, round-robin) or under 11 query shapes planned by the real optimizer (count, never-matching filter, GROUP BY, ORDER BY LIMIT, joins, window, UNION, DISTINCT); the consumers give up once the input has produced 50/300/1500 batches (optionally staggered per output); the input may be pulled at most 2000 times inside one task poll (tokio's budget is 128) and must stop being pulled after the drop. distinct/non-trivial as for C02",
        assumptions: L1_ASSUME.to_vec(),
        components: components(),
    }
}

pub fn c20() -> Check {
    Check {
        property: "C20",
        level: "fault_enumeration",
        scenarios: vec![
            Box::new(SqlScenario { name: "c20-faults", family: Family::Any, mode: Mode::Fault, need_reference: false, weight: 2, dynamic_filters: false, nlj_focus: false, tight_sort: false, file_tables: false, ordered_agg: false }),
            Box::new(SqlScenario { name: "c20-faults-tight", family: Family::Sort, mode: Mode::Fault, need_reference: true, weight: 1, dynamic_filters: false, nlj_focus: false, tight_sort: true, file_tables: false, ordered_agg: false }),
            Box::new(crate::c10::RepartitionFaults),
            Box::new(crate::c20store::ScanFaults),
            Box::new(crate::c25::WriteFaults),
        ],
        cases_quick: 20_000,
        cases_thorough: 400_000,
        rule: "runs: generated queries with exactly one scripted fault whose position is swept by the generator: an input partition returns an error or panics at a random step, an identity UDF wrapped around one column of a table fails at row n, or (under a bounded pool that forces spilling) the k-th spill create/write/flush/finish/read fails (torn/sticky variants). Once the fault has fired the result must be an error (or the injected panic re-raised) or the complete expected result; never a truncated success, hang or foreign panic; afterwards the release invariants of C19. c20-repartition (one third of the runs): RepartitionExec (round-robin/hash/preserve_order, 1-8 outputs) over scripted inputs with one injected input error while a third of the outputs are dropped after 0-2 batches: every output read to its end must report the error. c20-scan (a fifth): CSV / NDJSON / Parquet listing-table scans (1-3 files, byte-range repartitioned into 1-6 partitions, under scan / aggregate / sort / join / union / top-k queries) over the simulated object store in which the n-th GET fails before its body or after the first chunk of its body: error or the complete result of a fault-free store, never a truncated success. c20-sink (a fifth): the COPY / INSERT statements of C25 with one failing PUT, multipart part or multipart completion: the statement must fail, never report a row count. distinct/non-trivial as for C02",
        assumptions: L1_ASSUME.to_vec(),
        components: components(),
    }
}

pub fn c31() -> Check {
    Check {
        property: "C31",
        level: "exploration",
        scenarios: vec![
            Box::new(SqlScenario { name: "c31-joins", family: Family::Join, mode: Mode::Exact, need_reference: true, weight: 3, dynamic_filters: true, nlj_focus: false, tight_sort: false, file_tables: false, ordered_agg: false }),
            Box::new(SqlScenario { name: "c31-topk", family: Family::Sort, mode: Mode::Exact, need_reference: true, weight: 2, dynamic_filters: true, nlj_focus: false, tight_sort: false, file_tables: false, ordered_agg: false }),
            Box::new(SqlScenario { name: "c31-aggregates", family: Family::Agg, mode: Mode::Exact, need_reference: true, weight: 1, dynamic_filters: true, nlj_focus: false, tight_sort: false, file_tables: false, ordered_agg: false }),
            Box::new(SqlScenario { name: "c31-files-joins", family: Family::Join, mode: Mode::Exact, need_reference: true, weight: 2, dynamic_filters: true, nlj_focus: false, tight_sort: false, file_tables: true, ordered_agg: false }),
            Box::new(SqlScenario { name: "c31-files-aggregates", family: Family::Agg, mode: Mode::Exact, need_reference: true, weight: 1, dynamic_filters: true, nlj_focus: false, tight_sort: false, file_tables: true, ordered_agg: false }),
            Box::new(SqlScenario { name: "c31-files-topk", family: Family::Sort, mode: Mode::Exact, need_reference: true, weight: 2, dynamic_filters: true, nlj_focus: false, tight_sort: false, file_tables: true, ordered_agg: false }),
        ],
        cases_quick: 16_000,
        cases_thorough: 400_000,
        rule: "L1 part: generated join queries (all join types, NULL-equality modes, residual filters), ORDER BY ... LIMIT (TopK) and grouped aggregates over tables whose scans ACCEPT pushed-down filters and evaluate the current dynamic filter afresh on every batch; dynamic filter pushdown forced on, join filter strategy (bounds / IN-list / hash lookup) varied through the IN-list thresholds; build-side completion, probe scanning and sibling partitions interleaved by the seeded scheduler with Pending/virtual delays in the inputs; result compared with the independent reference (a row wrongly pruned shows as a missing row). L2 part (c31-filter, merged below): the filter object under shuttle schedules. distinct/non-trivial as for C02",
        assumptions: L1_ASSUME.to_vec(),
        components: components(),
    }
}
