//! The session-level scenario shared by C02, C05, C06, C08, C18, C19, C20: one generated query
//! over generated tables under a generated configuration, environment, schedule and fault script.

use crate::data::TableGen;
use crate::envutil::{EnvSpec, is_resources_exhausted};
use crate::queries::{self, Family};
use crate::runner::{Outcome, RunFuture, Scenario, violation};
use crate::sim;
use crate::sqlsim::{self, Cells, Consume, Executed, TableSpec};
use datafusion_common_runtime::SpawnedTask;
use dst_common::Tier;
use dst_common::rng::Rng;
use futures::FutureExt;
use serde_json::{Value, json};
use std::panic::AssertUnwindSafe;

#[derive(Clone, Copy, PartialEq, Debug)]
pub enum Mode {
    /// result must equal the expected rows (ResourcesExhausted tolerated under a bounded pool)
    Exact,
    /// memory-limited: equal or ResourcesExhausted, and everything released (C18)
    Pressure,
    /// the output stream is dropped at a swept point; release invariants (C19)
    Drop,
    /// one injected fault; the error surfaces or the result is complete (C20)
    Fault,
}

pub struct SqlScenario {
    pub name: &'static str,
    pub family: Family,
    pub mode: Mode,
    /// only templates with an independent reference evaluator
    pub need_reference: bool,
    pub weight: u64,
    /// C31: the scans accept pushed-down filters and dynamic filter pushdown is forced on
    pub dynamic_filters: bool,
    /// C18/C05: non-equi joins with a single probe partition and a left side of many small
    /// batches under small limits (the multi-chunk spill fallback of NestedLoopJoinExec)
    pub nlj_focus: bool,
    /// C18/C08: sorts whose memory limit sits in the range where runs are spilled and the merge can
    /// barely be seated (large batch size, few partitions, small merge fan-in): multi-level merges,
    /// re-spilling of skewed runs, merges that fail half-way
    pub tight_sort: bool,
    /// the tables are Parquet / NDJSON files in the simulated object store behind listing tables
    /// (file groups, byte-range repartitioning, shared work queue of sibling scan partitions, Parquet
    /// pruning and filter pushdown incl. dynamic filters) instead of simulated sources
    pub file_tables: bool,
    /// C06/C18: grouped aggregation over an input that is sorted on (part of) the group key, few
    /// partitions (single-stage plans), small batches and a limit of a few KB: ordered and partially
    /// ordered streams with early emission, spilling in the middle of a key range, replay of spilled runs
    pub ordered_agg: bool,
}

fn gen_table(rng: &mut Rng, tier: Tier, small: bool) -> Value {
    let big = tier == Tier::Thorough;
    // a quarter of the tables are sorted by (k NULLS FIRST, id) within every partition and say so:
    // ordered/partially ordered aggregation, partial sorts, sort-preserving merges and sort-merge
    // joins without a sort below them
    let sorted = rng.chance(1, 4);
    let tg = TableGen {
        parts: (1, 4),
        batches: (0, if small { 3 } else if big { 6 } else { 4 }),
        rows: (0, if small { 4 } else if big { 16 } else { 8 }),
        key_domain: *rng.pick(&[2i64, 4, 6, 12]),
        sorted_by_k: sorted,
        ..Default::default()
    };
    let mut parts = tg.generate(rng);
    // degenerate key columns: every key NULL (NOT IN / null-aware anti joins, NULL groups, NULL sort keys)
    // or every key the same (one group, one hash bucket, one equal-key run)
    if rng.chance(1, 8) {
        let all_null = rng.chance(1, 2);
        if let Some(ps) = parts.as_array_mut() {
            for steps in ps.iter_mut().filter_map(|p| p.as_array_mut()) {
                for st in steps.iter_mut() {
                    if let Some(rows) = st.get_mut("b").and_then(|b| b.as_array_mut()) {
                        for r in rows.iter_mut().filter_map(|r| r.as_array_mut()) {
                            r[0] = if all_null { Value::Null } else { json!(1) };
                        }
                    }
                }
            }
        }
    }
    json!({"parts": parts, "sorted": sorted, "view": rng.chance(1, 3)})
}

/// Inserts one fault step ("err" or "panic") at a random position of a random partition.
fn inject_source_fault(rng: &mut Rng, table: &mut Value, kind: &str) {
    if let Some(parts) = table["parts"].as_array_mut() {
        if parts.is_empty() {
            return;
        }
        let p = rng.below(parts.len() as u64) as usize;
        if let Some(steps) = parts[p].as_array_mut() {
            let pos = rng.below(steps.len() as u64 + 1) as usize;
            steps.insert(pos, json!(kind));
        }
    }
}

impl Scenario for SqlScenario {
    fn name(&self) -> &'static str {
        self.name
    }
    fn weight(&self) -> u64 {
        self.weight
    }
    fn generate(&self, rng: &mut Rng, tier: Tier) -> Value {
        let mut q = queries::generate(rng, self.family);
        if self.need_reference {
            // families Join/Agg/Sort all have references; Any may produce others: re-draw
            let mut guard = 0;
            while !queries::has_reference(&q) && guard < 20 {
                q = queries::generate(rng, self.family);
                guard += 1;
            }
        }
        if self.dynamic_filters && self.family == Family::Join && rng.chance(1, 6) {
            // a plan that is executed several times with different build sides (one execution per iteration)
            q = json!({"t": "recursive", "c": rng.below(700) as i64 - 300, "depth": rng.range(1, 3), "dedup": rng.chance(1, 3)});
        }
        if self.ordered_agg {
            let t = *rng.pick(&["groupby", "groupby", "groupby_filter", "groupby_ord", "having", "groupby_str", "distinct"]);
            let keys = if t == "groupby_str" { *rng.pick(&["k", "ks"]) } else { *rng.pick(&["ks", "ks", "k"]) };
            q = json!({"t": t, "keys": keys, "c": rng.below(300) as i64 - 100, "n": rng.range(0, 2)});
        }
        if self.nlj_focus {
            q = json!({"t": "nlj", "jt": *rng.pick(&["inner", "left", "right", "full", "semi", "anti", "rsemi", "ranti"])});
        }
        let small = queries::needs_small_tables(&q);
        let mut a = gen_table(rng, tier, small);
        let mut b = gen_table(rng, tier, small);
        if self.nlj_focus {
            let many = TableGen { parts: (1, 2), batches: (2, 6), rows: (1, 3), key_domain: 4, pending_pct: 10, delay_pct: 0, ..Default::default() };
            a = json!({"parts": many.generate(rng), "sorted": false});
            let one = TableGen { parts: (1, 1), batches: (1, 3), rows: (0, 4), key_domain: 4, ..Default::default() };
            b = json!({"parts": one.generate(rng), "sorted": false});
        }
        let pressure = matches!(self.mode, Mode::Pressure) || (self.mode != Mode::Fault && rng.chance(1, 3));
        let mut env = EnvSpec::generate(rng, pressure);
        if self.mode == Mode::Pressure && env["pool"]["kind"] == json!("unbounded") {
            let limit = match rng.below(3) {
                0 => rng.below(8_000),
                1 => rng.below(40_000),
                _ => *rng.pick(&[0u64, 500, 2_000, 8_000, 30_000, 200_000]),
            };
            // a third: ample memory and a neighbour that squeezes it for a moment (single refusals at
            // arbitrary points instead of a constant shortage)
            env["pool"] = if rng.chance(1, 3) {
                let squeezes: Vec<Value> = (0..rng.range(1, 3)).map(|_| json!([rng.below(90), rng.below(600), rng.range(1, 6)])).collect();
                json!({"kind": *rng.pick(&["greedy", "fair"]), "limit": rng.range(6_000, 60_000), "neighbour": squeezes})
            } else {
                json!({"kind": *rng.pick(&["greedy", "fair"]), "limit": limit, "neighbour": []})
            };
        }
        let mut drop_after = Value::Null;
        match self.mode {
            Mode::Drop => drop_after = json!(rng.range(0, 3)),
            Mode::Fault => match if self.tight_sort { *rng.pick(&[0u64, 7, 7, 7]) } else { rng.below(12) } {
                10 | 11 => {
                    // function failure: an identity UDF over one column of a table fails at row n
                    let in_a = rng.chance(1, 2) || !queries::uses_b(&q);
                    let t = if in_a { &mut a } else { &mut b };
                    t["udf_fault"] = json!({"col": *rng.pick(&["k", "v"]), "row": rng.below(24)});
                }
                x @ 0..=6 => {
                    let in_a = rng.chance(1, 2) || !queries::uses_b(&q);
                    let kind = if x <= 4 { "err" } else { "panic" };
                    inject_source_fault(rng, if in_a { &mut a } else { &mut b }, kind);
                    // a third of the input faults arrive while the query is short of memory (spilled runs,
                    // fallback paths that re-read their input)
                    if rng.chance(1, 3) {
                        env["pool"] = json!({"kind": *rng.pick(&["greedy", "fair"]), "limit": *rng.pick(&[0u64, 300, 1_000, 3_000, 10_000]), "neighbour": []});
                    }
                }
                _ => {
                    // disk fault: only meaningful when the query spills -> bounded pool
                    let limit = if rng.chance(1, 2) { *rng.pick(&[500u64, 2_000, 8_000]) } else { rng.range(300, 9_000) };
                    env["pool"] = json!({"kind": *rng.pick(&["fair", "fair", "greedy"]), "limit": limit, "neighbour": []});
                    let kind = *rng.pick(&["write", "write", "flush", "finish", "create", "read", "read", "read"]);
                    // reads: spread over the whole run (merge passes re-read what earlier passes wrote)
                    let nth = if kind == "read" { rng.below(40) } else { rng.below(10) };
                    env["disk"]["faults"] = json!([{"kind": kind, "nth": nth, "sticky": rng.chance(1, 3), "torn": rng.chance(1, 2)}]);
                }
            },
            _ => {}
        }
        let mut knobs = sqlsim::generate_cfg(rng);
        if self.ordered_agg {
            let tg = TableGen { parts: (1, 2), batches: (3, 8), rows: (2, 8), key_domain: *rng.pick(&[3i64, 5, 8]), sorted_by_k: true, null_pct: 6, ..Default::default() };
            a = json!({"parts": tg.generate(rng), "sorted": true, "view": rng.chance(1, 3)});
            knobs["datafusion.execution.target_partitions"] = json!(*rng.pick(&[1u64, 1, 1, 2]));
            env["batch_size"] = json!(*rng.pick(&[1u64, 2, 4, 8]));
            if rng.chance(3, 4) {
                env["pool"] = if rng.chance(1, 2) {
                    json!({"kind": *rng.pick(&["greedy", "fair"]), "limit": rng.range(800, 6_000), "neighbour": []})
                } else {
                    // ample memory, but a neighbour that takes (almost) everything for a moment: one or two
                    // refusals at arbitrary points of the run, i.e. a spill in the middle of a key range
                    let squeezes: Vec<Value> = (0..rng.range(1, 2)).map(|_| json!([rng.below(70), rng.below(400), rng.range(1, 4)])).collect();
                    json!({"kind": *rng.pick(&["greedy", "fair"]), "limit": rng.range(6_000, 40_000), "neighbour": squeezes})
                };
            }
        }
        if self.tight_sort {
            let tg = TableGen { parts: (1, 3), batches: (2, 6), rows: (3, 16), key_domain: 6, ..Default::default() };
            a = json!({"parts": tg.generate(rng), "sorted": false, "view": rng.chance(1, 3)});
            knobs["datafusion.execution.target_partitions"] = json!(*rng.pick(&[1u64, 1, 2]));
            env["batch_size"] = json!(*rng.pick(&[16u64, 64, 8192]));
            env["merge_fan_in"] = json!(*rng.pick(&[0u64, 2, 2, 3]));
            env["sort_spill_reservation"] = json!(*rng.pick(&[0u64, 0, 64, 1024]));
            env["pool"] = if rng.chance(1, 3) {
                let squeezes: Vec<Value> = (0..rng.range(1, 3)).map(|_| json!([rng.below(90), rng.below(600), rng.range(1, 6)])).collect();
                json!({"kind": *rng.pick(&["greedy", "fair"]), "limit": rng.range(6_000, 60_000), "neighbour": squeezes})
            } else {
                json!({"kind": *rng.pick(&["greedy", "fair"]), "limit": rng.range(600, 9_000), "neighbour": []})
            };
        }
        if self.nlj_focus {
            knobs["datafusion.execution.target_partitions"] = json!(1);
            env["pool"] = json!({"kind": *rng.pick(&["greedy", "fair"]), "limit": *rng.pick(&[0u64, 50, 100, 200, 400, 800, 3000]), "neighbour": []});
        }
        if self.file_tables {
            let fmt = *rng.pick(&["parquet", "parquet", "parquet", "json"]);
            for t in [&mut a, &mut b] {
                t["storage"] = json!(fmt);
                t["row_group"] = json!(*rng.pick(&[1u64, 2, 3, 5, 1000]));
                if rng.chance(1, 3) {
                    // hive layout needs a partition value for every row: no NULL keys in such a table
                    t["hive"] = json!(true);
                    if let Some(parts) = t["parts"].as_array_mut() {
                        for steps in parts.iter_mut().filter_map(|p| p.as_array_mut()) {
                            for st in steps.iter_mut() {
                                if let Some(rows) = st.get_mut("b").and_then(|b| b.as_array_mut()) {
                                    for r in rows.iter_mut().filter_map(|r| r.as_array_mut()) {
                                        if r[0].is_null() {
                                            r[0] = json!(0);
                                        }
                                    }
                                }
                            }
                        }
                    }
                }
                t["sorted"] = json!(false);
                t["view"] = json!(false);
            }
            sqlsim::generate_file_cfg(rng, &mut knobs);
            // (string-typed casts of the integer key over files with statistics run into an unrelated planner
            // defect: min/max statistics are carried through CAST(k AS VARCHAR) as if the cast were monotonic,
            // "Interval's lower bound 2 is greater than the upper bound 10" - statistics soundness is not among
            // the properties decided here, so these variants stay with the simulated sources)
            if matches!(q.get("kt").and_then(|x| x.as_str()), Some("utf8" | "dict" | "view")) {
                q.as_object_mut().map(|m| m.remove("kt"));
            }
        }
        if self.dynamic_filters {
            // memory pressure is not C31's subject (and would only re-find the NLJ fallback findings)
            env["pool"] = json!({"kind": "unbounded", "limit": 0, "neighbour": []});
            a["filters"] = json!(true);
            b["filters"] = json!(true);
            for k in [
                "datafusion.optimizer.enable_dynamic_filter_pushdown",
                "datafusion.optimizer.enable_join_dynamic_filter_pushdown",
                "datafusion.optimizer.enable_topk_dynamic_filter_pushdown",
                "datafusion.optimizer.enable_aggregate_dynamic_filter_pushdown",
            ] {
                knobs[k] = json!(true);
            }
            // eager probing (BufferExec above the probe side) in half of the runs: the probe scan then reads
            // the filter before the build side has published it
            if rng.chance(1, 2) {
                knobs["datafusion.execution.hash_join_buffering_capacity"] = json!(*rng.pick(&[1u64, 100, 4096, 1 << 20]));
            }
            // bounds / IN-list / hash-lookup strategies of the join filter
            knobs["datafusion.optimizer.hash_join_inlist_pushdown_max_size"] = json!(*rng.pick(&[0u64, 64, 131072]));
            knobs["datafusion.optimizer.hash_join_inlist_pushdown_max_distinct_values"] = json!(*rng.pick(&[0u64, 2, 150]));
        }
        json!({
            "tables": {"a": a, "b": b},
            "query": q,
            "knobs": knobs,
            "env": env,
            "consume": *rng.pick(&["stream", "partitions"]),
            "store": if self.file_tables {
                json!({"chunk": *rng.pick(&[0u64, 0, 7, 64, 1000]), "pending_every": *rng.pick(&[0u64, 0, 1, 3]), "latency_ms": *rng.pick(&[0u64, 0, 2, 9]), "fail_get": Value::Null,
                       "list_order": if rng.chance(1, 2) { rng.range(1, 1_000_000) } else { 0 }})
            } else {
                Value::Null
            },
            "drop_after": drop_after,
            "concurrent": if self.mode == Mode::Exact && !self.need_reference { *rng.pick(&[1u64, 1, 2, 3]) } else { 1 },
        })
    }
    fn run(&self, case: Value) -> RunFuture {
        let mode = self.mode;
        Box::pin(async move { run(case, mode).await })
    }
}

pub fn panic_text(p: &Box<dyn std::any::Any + Send>) -> String {
    if let Some(s) = p.downcast_ref::<&str>() {
        s.to_string()
    } else if let Some(s) = p.downcast_ref::<String>() {
        s.clone()
    } else {
        "non-string panic".to_string()
    }
}

async fn run(case: Value, mode: Mode) -> Outcome {
    let Some(tables) = sqlsim::parse_tables(&case["tables"]) else { return Outcome::Invalid };
    let Some(env) = EnvSpec::parse(&case["env"]) else { return Outcome::Invalid };
    let q = &case["query"];
    let Some(sql) = queries::sql(q) else { return Outcome::Invalid };
    let consume = if case["consume"].as_str() == Some("partitions") { Consume::Partitions } else { Consume::Stream };
    let drop_after = case["drop_after"].as_u64();
    let concurrent = case["concurrent"].as_u64().unwrap_or(1).clamp(1, 4);
    let mode_cmp = queries::compare_mode(q);
    let ordered = mode_cmp == queries::Compare::Sequence;

    // expected rows: independent reference if the template has one, else the baseline configuration
    let a_rows = sqlsim::rows_of(&tables, "a");
    let b_rows = sqlsim::rows_of(&tables, "b");
    let universe: Option<Vec<Cells>> = queries::universe(q, &a_rows, &b_rows);
    let expected: Vec<Cells> = match queries::reference(q, &a_rows, &b_rows) {
        Some(r) => {
            sim::probe("probe.oracle_reference");
            r
        }
        None => {
            sim::probe("probe.oracle_baseline");
            let Some(base) = sqlsim::build_baseline(&tables) else { return Outcome::Invalid };
            match sqlsim::execute_sql(&base, &sql, Consume::Stream, None).await.result {
                Ok(r) => r,
                Err(e) => return violation("template-error", format!("baseline configuration failed for `{sql}`: {}", sqlsim::error_text(&e))),
            }
        }
    };

    let Some(sess) = sqlsim::build_session(&env, &case["knobs"], &tables) else { return Outcome::Invalid };
    let file_store = match sqlsim::register_file_tables(&sess, &tables, &case["store"]).await {
        Ok(s) => s,
        Err(e) => return violation("harness", format!("cannot set up file-backed tables: {e}")),
    };
    if let Some(st) = &file_store {
        let _ = st;
        sim::probe("probe.file_backed_tables");
    }
    let bounded_pool = env.pool_kind != "unbounded";

    // run the query (possibly several copies concurrently in one session)
    let mut runs: Vec<std::result::Result<Executed, String>> = vec![];
    // plans are made first and kept outside the unwinding boundary, so that a run that panics can
    // still be classified by the plan it executed
    let mut planned: Vec<std::sync::Arc<dyn datafusion_physical_plan::ExecutionPlan>> = vec![];
    if concurrent == 1 {
        match AssertUnwindSafe(sqlsim::plan_sql(&sess.ctx, &sql)).catch_unwind().await {
            Err(p) => runs.push(Err(format!("planning panicked: {}", panic_text(&p)))),
            Ok(Err(e)) => runs.push(Ok(Executed { result: Err(e), plan: None, dropped_early: false, batches_seen: 0 })),
            Ok(Ok(plan)) => {
                planned.push(std::sync::Arc::clone(&plan));
                let r = AssertUnwindSafe(sqlsim::execute_plan(&sess.ctx, plan, consume, drop_after)).catch_unwind().await;
                runs.push(r.map_err(|p| panic_text(&p)));
            }
        }
    } else {
        let mut hs = vec![];
        for _ in 0..concurrent {
            let ctx = sess.ctx.clone();
            match sqlsim::plan_sql(&ctx, &sql).await {
                Err(e) => runs.push(Ok(Executed { result: Err(e), plan: None, dropped_early: false, batches_seen: 0 })),
                Ok(plan) => {
                    planned.push(std::sync::Arc::clone(&plan));
                    hs.push(SpawnedTask::spawn(async move { sqlsim::execute_plan(&ctx, plan, consume, None).await }));
                }
            }
        }
        for h in hs {
            match h.join().await {
                Ok(e) => runs.push(Ok(e)),
                Err(e) => runs.push(Err(format!("query task failed: {e}"))),
            }
        }
        sim::probe("probe.concurrent_queries");
    }
    // keep the plans for metric checks, release everything else, then let the system go idle
    let plans: Vec<_> = runs.iter().filter_map(|r| r.as_ref().ok().and_then(|e| e.plan.clone())).collect();
    tokio::time::sleep(std::time::Duration::from_secs(3600)).await;

    let fault_fired = sim::with(|s| s.probes.0.iter().any(|(k, v)| k.starts_with("fault.") && *v > 0))
        || sess.env.disk.any_fired();
    // Known cause of wrong join results (known-findings.txt): NestedLoopJoinExec's memory-limited
    // fallback emits left-side rows per right partition. Identified from the executed plan itself.
    let nlj_fallback: Option<&str> = plans.iter().find_map(|p| crate::sqlsim::nlj_fallback_kind(p));
    for r in &runs {
        match r {
            Err(p) => {
                // a panic escaped the query
                let injected_panic = sim::with(|s| s.probes.get("fault.source_panic") > 0);
                if mode == Mode::Fault && (p.contains("simulated source panic") || (injected_panic && p.contains("inner future panicked"))) {
                    // the injected panic itself, or futures::Shared re-raising it to the other
                    // partitions that wait for the same (panicked) build side
                    sim::probe("probe.injected_panic_resurfaced");
                } else {
                    let notes = sim::panic_notes();
                    // known finding: the NLJ fallback executes its left child twice
                    if bounded_pool && notes.iter().any(|n| n.contains("partition not used yet")) && planned.iter().any(sqlsim::nlj_left_reexecution_shape) {
                        sim::set_tag("nlj-fallback-left-reexecution");
                    }
                    return violation("panic", format!("query panicked: {p}; panics raised: {notes:?}"));
                }
            }
            Ok(ex) => match &ex.result {
                Err(e) => {
                    let text = sqlsim::error_text(e);
                    if text.contains("simulated source panic") && mode == Mode::Fault {
                        sim::probe("probe.injected_panic_as_error");
                    } else if is_resources_exhausted(e) && bounded_pool {
                        sim::probe("probe.resources_exhausted_run");
                    } else if mode == Mode::Fault && fault_fired {
                        sim::probe("probe.error_surfaced");
                    } else if matches!(e.find_root(), datafusion_common::DataFusionError::NotImplemented(_)) && q.get("kt").is_some() {
                        // a type variant the chosen operator does not support (e.g. dictionary keys in
                        // the sort-merge join comparator): a documented gap, not a wrong result
                        sim::probe("probe.type_variant_not_implemented");
                    } else {
                        // known finding (third symptom of the NLJ fallback's re-execution of its left child):
                        // a file scan whose partitions share one work queue yields nothing the second time
                        if bounded_pool && e.to_string().contains("Left side produced no data to spill") {
                            sim::set_tag("nlj-fallback-left-reexecution");
                        }
                        return violation("unexpected-error", format!("`{sql}` failed: {text}"));
                    }
                }
                Ok(rows) => {
                    if ex.dropped_early {
                        sim::probe("probe.dropped_early");
                        // a prefix was read: every row seen must at least belong to the result
                        if !ordered {
                            let pool = universe.as_ref().unwrap_or(&expected);
                            for r in rows {
                                if !pool.contains(r) {
                                    // (a row outside the result can only stem from the left-emission finding;
                                    // the right-emission finding loses rows, it never invents one)
                                    if let Some(t) = nlj_fallback.filter(|t| *t == "nlj-fallback-left-emission") {
                                        sim::set_tag(t);
                                    }
                                    return violation("wrong-row", format!("`{sql}` produced {r:?}, which is not in the expected result"));
                                }
                            }
                        }
                    } else if let Some(diff) = sqlsim::compare_with(rows, &expected, &mode_cmp, universe.as_deref()) {
                        // The known findings have precise symptoms: the left-emission defect only *adds* rows
                        // (left rows once per right partition), the right-emission defect only *loses* rows
                        // (the final right-side emission). Anything else in the same code is reported.
                        let (has_missing, has_extra) = sqlsim::missing_extra(rows, &expected);
                        match nlj_fallback {
                            Some(t @ "nlj-fallback-left-emission") if !has_missing => sim::set_tag(t),
                            Some(t @ "nlj-fallback-right-emission") if !has_extra => sim::set_tag(t),
                            // the join took its fallback and re-read a file scan as its left side: the second
                            // execution sees whatever the scan's shared work queue still holds (rows of files
                            // already taken are lost; with several partitions a remaining file can be handed out
                            // twice)
                            _ if bounded_pool && (has_missing || has_extra) && plans.iter().any(sqlsim::nlj_left_reexecution_over_file_scan) => {
                                sim::set_tag("nlj-fallback-left-reexecution")
                            }
                            _ if case["knobs"]["datafusion.optimizer.preserve_file_partitions"].as_u64().unwrap_or(0) > 0 && plans.iter().any(sqlsim::join_over_value_grouped_file_scan) => {
                                sim::set_tag("preserve-file-partitions-join")
                            }
                            _ => {}
                        }
                        let class = if mode == Mode::Fault && fault_fired { "truncated-success" } else { "wrong-result" };
                        return violation(class, format!("`{sql}`: {diff}"));
                    } else if mode == Mode::Fault && fault_fired {
                        sim::probe("probe.complete_despite_fault");
                    } else {
                        sim::probe("probe.result_matched");
                    }
                    if bounded_pool && sess.env.disk.stats.files_created.load(std::sync::atomic::Ordering::Relaxed) > 0 {
                        sim::probe("probe.spilled_and_succeeded");
                    }
                }
            },
        }
    }
    // C53 piggy-back: on fully consumed fault-free runs the root's output_rows metric equals the rows produced
    if !fault_fired && drop_after.is_none() {
        for (r, plan) in runs.iter().zip(plans.iter()) {
            if let Ok(Executed { result: Ok(rows), .. }) = r {
                if let Some(m) = plan.metrics() {
                    if let Some(n) = m.output_rows() {
                        if n != rows.len() {
                            return violation("root-metric-mismatch", format!("root {} reports output_rows={n} but produced {} rows", plan.name(), rows.len()));
                        }
                    }
                }
            }
        }
    }
    drop(plans);
    drop(planned);
    drop(runs);
    let SqlParts { env: cx, tables: stats } = SqlParts::from(sess);
    tokio::time::sleep(std::time::Duration::from_secs(10)).await;
    if let Some(v) = cx.quiescence_violation_stats(&stats) {
        return v;
    }
    Outcome::Pass
}

struct SqlParts {
    env: crate::envutil::Ctx,
    tables: Vec<(String, std::sync::Arc<crate::source::SourceStats>)>,
}
impl From<sqlsim::SimSession> for SqlParts {
    fn from(s: sqlsim::SimSession) -> Self {
        // the SessionContext (catalog, cached state) is released here
        let sqlsim::SimSession { ctx, env, tables } = s;
        drop(ctx);
        SqlParts { env, tables }
    }
}

#[allow(dead_code)]
pub fn table_specs(case: &Value) -> Option<Vec<TableSpec>> {
    sqlsim::parse_tables(&case["tables"])
}
