//! C40 — file caches honour their validity rules and stay within budget.
//! (a) c40-cache: histories on the real DefaultCache (through the Cache trait) with a simulated
//!     clock (TimeProvider seam) against a reference LRU-with-TTL map;
//! (b) c40-files: query / rewrite / add / delete / advance-clock / drop+recreate histories on a
//!     Parquet listing table over the simulated object store with the list-files cache (TTL on the
//!     simulated clock), the file statistics cache and the Parquet metadata cache enabled.

use crate::envutil::EnvSpec;
use crate::objstore::{SimObjectStore, StoreSpec};
use crate::runner::{Check, Outcome, RunFuture, Scenario, violation};
use crate::sim;
use crate::sqlsim::{self, Cells, Consume};
use arrow::array::{Int64Array, RecordBatch, StringArray};
use arrow::datatypes::{DataType, Field, Schema};
use datafusion::execution::cache::cache_manager::{CacheManagerConfig, CachedFileList};
use datafusion::execution::cache::default_cache::{DefaultCache, TimeProvider};
use datafusion::execution::cache::{Cache, CacheValue, TableScopedPath};
use datafusion::execution::runtime_env::RuntimeEnvBuilder;
use datafusion::prelude::SessionContext;
use datafusion_common::TableReference;
use datafusion_common::instant::Instant;
use dst_common::Tier;
use dst_common::rng::Rng;
use object_store::path::Path;
use object_store::{ObjectStoreExt, PutPayload};
use serde_json::{Value, json};
use std::sync::Arc;
use std::sync::atomic::{AtomicU64, Ordering};
use std::time::Duration;

pub struct SimClock {
    base: Instant,
    offset_ms: AtomicU64,
}
impl SimClock {
    pub fn new() -> Arc<Self> {
        Arc::new(SimClock { base: Instant::now(), offset_ms: AtomicU64::new(0) })
    }
    pub fn advance(&self, ms: u64) {
        self.offset_ms.fetch_add(ms, Ordering::Relaxed);
    }
    pub fn now_ms(&self) -> u64 {
        self.offset_ms.load(Ordering::Relaxed)
    }
}
impl TimeProvider for SimClock {
    fn now(&self) -> Instant {
        self.base + Duration::from_millis(self.offset_ms.load(Ordering::Relaxed))
    }
}

#[derive(Clone, Debug, PartialEq)]
struct Val {
    id: u64,
    size: usize,
}
impl CacheValue for Val {
    fn size(&self) -> usize {
        self.size
    }
}

// ---------------------------------------------------------------------------------------
pub struct CacheModel;

fn key_of(i: u64) -> TableScopedPath {
    let table = match i % 3 {
        0 => None,
        1 => Some(TableReference::bare("t1")),
        _ => Some(TableReference::bare("t2")),
    };
    TableScopedPath { table, path: Path::from(format!("dir/file{}", i / 3)) }
}

impl Scenario for CacheModel {
    fn name(&self) -> &'static str {
        "c40-cache"
    }
    fn weight(&self) -> u64 {
        3
    }
    fn generate(&self, rng: &mut Rng, _tier: Tier) -> Value {
        let n = rng.range(3, 30);
        let limit = *rng.pick(&[0u64, 100, 200, 400, 1000]);
        let ops: Vec<Value> = (0..n)
            .map(|_| {
                let k = rng.below(9);
                match rng.below(14) {
                    0..=4 => json!({"op": "put", "k": k, "size": *rng.pick(&[0u64, 1, 20, 60, 150, 390, 2000])}),
                    5..=7 => json!({"op": "get", "k": k}),
                    8 => json!({"op": "contains", "k": k}),
                    9 => json!({"op": "remove", "k": k}),
                    10 => json!({"op": "advance", "ms": *rng.pick(&[1u64, 99, 100, 101, 500])}),
                    11 => json!({"op": "set_limit", "n": *rng.pick(&[0u64, 50, 150, 300, 1000])}),
                    12 => json!({"op": if rng.chance(1, 4) { "clear" } else { "drop_table" }, "t": rng.range(1, 2)}),
                    _ => json!({"op": "set_ttl", "ms": if rng.chance(1, 3) { Value::Null } else { json!(*rng.pick(&[50u64, 100, 300])) }}),
                }
            })
            .collect();
        json!({"limit": limit, "ttl": if rng.chance(1, 2) { json!(100) } else { Value::Null }, "ops": ops})
    }
    fn run(&self, case: Value) -> RunFuture {
        Box::pin(async move { run_cache(&case) })
    }
}

struct MEntry {
    key: TableScopedPath,
    val: Val,
    expires: Option<u64>,
}

fn run_cache(case: &Value) -> Outcome {
    let Some(ops) = case["ops"].as_array() else { return Outcome::Invalid };
    if ops.len() > 64 {
        return Outcome::Invalid;
    }
    let mut limit = case["limit"].as_u64().unwrap_or(100) as usize;
    let mut ttl: Option<u64> = case["ttl"].as_u64();
    let clock = SimClock::new();
    let cache: DefaultCache<TableScopedPath, Val> =
        DefaultCache::new_with_ttl(limit, ttl.map(Duration::from_millis)).with_time_provider(clock.clone());
    // reference: LRU order, front = least recently used
    let mut m: Vec<MEntry> = vec![];
    let mut next_id = 1u64;
    use datafusion::execution::cache::CacheKey;
    for (step, o) in ops.iter().enumerate() {
        let op = o["op"].as_str().unwrap_or("");
        let key = key_of(o["k"].as_u64().unwrap_or(0) % 12);
        let now = clock.now_ms();
        let expired = |e: &MEntry| e.expires.is_some_and(|x| now > x);
        match op {
            "put" => {
                let size = o["size"].as_u64().unwrap_or(1).min(1 << 20) as usize;
                let v = Val { id: next_id, size };
                next_id += 1;
                let got = cache.put(&key, v.clone());
                let pos = m.iter().position(|e| e.key == key);
                let want: Option<Val> = if size == 0 {
                    None
                } else if key.size() + size > limit {
                    pos.map(|p| m.remove(p).val)
                } else {
                    let old = pos.map(|p| m.remove(p).val);
                    m.push(MEntry { key: key.clone(), val: v, expires: ttl.map(|t| now + t) });
                    let used = |m: &Vec<MEntry>| m.iter().map(|e| e.key.size() + e.val.size).sum::<usize>();
                    while used(&m) > limit && !m.is_empty() {
                        m.remove(0);
                        sim::probe("probe.lru_eviction");
                    }
                    old
                };
                if got != want {
                    return violation("put-result", format!("step {step}: put returned {got:?}, reference says {want:?}"));
                }
            }
            "get" => {
                let got = cache.get(&key);
                let want = match m.iter().position(|e| e.key == key) {
                    None => None,
                    Some(p) if expired(&m[p]) => {
                        m.remove(p);
                        sim::probe("probe.ttl_expiry_seen");
                        None
                    }
                    Some(p) => {
                        let e = m.remove(p);
                        let v = e.val.clone();
                        m.push(e);
                        Some(v)
                    }
                };
                if got != want {
                    let class = if want.is_none() { "stale-entry-returned" } else { "entry-lost" };
                    return violation(class, format!("step {step}: get({key}) returned {got:?}, reference says {want:?} (now={now}ms)"));
                }
            }
            "contains" => {
                let got = cache.contains_key(&key);
                let want = match m.iter().position(|e| e.key == key) {
                    None => false,
                    Some(p) if expired(&m[p]) => {
                        m.remove(p);
                        false
                    }
                    Some(_) => true,
                };
                if got != want {
                    return violation("contains-mismatch", format!("step {step}: contains_key({key})={got}, reference says {want}"));
                }
            }
            "remove" => {
                let got = cache.remove(&key);
                let want = m.iter().position(|e| e.key == key).map(|p| m.remove(p).val);
                if got != want {
                    return violation("remove-result", format!("step {step}: remove returned {got:?}, reference says {want:?}"));
                }
            }
            "advance" => clock.advance(o["ms"].as_u64().unwrap_or(1).min(100_000)),
            "set_limit" => {
                limit = o["n"].as_u64().unwrap_or(0) as usize;
                cache.update_cache_limit(limit);
                while m.iter().map(|e| e.key.size() + e.val.size).sum::<usize>() > limit && !m.is_empty() {
                    m.remove(0);
                }
            }
            "set_ttl" => {
                ttl = o["ms"].as_u64();
                cache.update_cache_ttl(ttl.map(Duration::from_millis));
            }
            "clear" => {
                cache.clear();
                m.clear();
            }
            "drop_table" => {
                let t = TableReference::bare(format!("t{}", o["t"].as_u64().unwrap_or(1)));
                if cache.drop_table_entries(&t).is_err() {
                    return violation("unexpected-error", "drop_table_entries failed".into());
                }
                m.retain(|e| e.key.table.as_ref() != Some(&t));
            }
            _ => continue,
        }
        // invariants after every operation
        let used: usize = m.iter().map(|e| e.key.size() + e.val.size).sum();
        if cache.memory_used() != used {
            return violation("memory-accounting", format!("step {step} ({op}): memory_used()={} but the live entries sum to {used}", cache.memory_used()));
        }
        if cache.memory_used() > limit {
            return violation("over-budget", format!("step {step} ({op}): memory_used()={} exceeds the limit {limit}", cache.memory_used()));
        }
        if cache.len() != m.len() {
            return violation("length-mismatch", format!("step {step} ({op}): len()={} but the reference holds {} entries", cache.len(), m.len()));
        }
    }
    Outcome::Pass
}

// ---------------------------------------------------------------------------------------
pub struct Files;

fn parquet_bytes(rows: &[(i64, String)]) -> Vec<u8> {
    let schema = Arc::new(Schema::new(vec![Field::new("id", DataType::Int64, false), Field::new("s", DataType::Utf8, true)]));
    let batch = RecordBatch::try_new(
        schema.clone(),
        vec![
            Arc::new(Int64Array::from(rows.iter().map(|r| r.0).collect::<Vec<_>>())),
            Arc::new(StringArray::from(rows.iter().map(|r| Some(r.1.clone())).collect::<Vec<_>>())),
        ],
    )
    .unwrap();
    let mut buf = vec![];
    {
        let mut w = datafusion::parquet::arrow::ArrowWriter::try_new(&mut buf, schema, None).unwrap();
        w.write(&batch).unwrap();
        w.close().unwrap();
    }
    buf
}

impl Scenario for Files {
    fn name(&self) -> &'static str {
        "c40-files"
    }
    fn generate(&self, rng: &mut Rng, _tier: Tier) -> Value {
        let n = rng.range(3, 12);
        let ops: Vec<Value> = (0..n)
            .map(|_| match rng.below(10) {
                0..=3 => json!({"op": "query", "q": rng.below(2)}),
                4 | 5 => json!({"op": "rewrite", "f": rng.below(3), "rows": rng.range(0, 5), "base": rng.below(1000)}),
                6 => json!({"op": "add", "rows": rng.range(1, 4), "base": rng.below(1000)}),
                7 => json!({"op": "delete", "f": rng.below(3)}),
                8 => json!({"op": "advance", "ms": *rng.pick(&[10u64, 999, 1000, 1001, 5000])}),
                _ => json!({"op": "drop_recreate"}),
            })
            .collect();
        json!({
            "list_cache": rng.chance(2, 3),
            "list_ttl_ms": if rng.chance(2, 3) { json!(1000) } else { Value::Null },
            "stats_cache": rng.chance(3, 4),
            "initial": [rng.range(1, 4), rng.range(0, 3)],
            "ops": ops,
            "store": {"chunk": *rng.pick(&[0u64, 64, 1000]), "pending_every": *rng.pick(&[0u64, 2]), "latency_ms": 0, "fail_get": Value::Null},
            "env": EnvSpec::generate(rng, false),
        })
    }
    fn run(&self, case: Value) -> RunFuture {
        Box::pin(async move { run_files(case).await })
    }
}

async fn run_files(case: Value) -> Outcome {
    let Some(ops) = case["ops"].as_array().cloned() else { return Outcome::Invalid };
    let Some(spec) = StoreSpec::parse(&case["store"]) else { return Outcome::Invalid };
    let Some(env) = EnvSpec::parse(&case["env"]) else { return Outcome::Invalid };
    if ops.len() > 30 {
        return Outcome::Invalid;
    }
    let store = SimObjectStore::new(spec);
    let clock = SimClock::new();
    let list_cache_on = case["list_cache"].as_bool().unwrap_or(false);
    let list_ttl = case["list_ttl_ms"].as_u64();
    let mut cm = CacheManagerConfig::default();
    if list_cache_on {
        let c: DefaultCache<TableScopedPath, CachedFileList> =
            DefaultCache::new_with_ttl(1 << 20, list_ttl.map(Duration::from_millis)).with_time_provider(clock.clone());
        cm = cm.with_list_files_cache(Some(Arc::new(c))).with_list_files_cache_ttl(list_ttl.map(Duration::from_millis));
    } else {
        cm = cm.with_list_files_cache(None).with_list_files_cache_limit(0);
    }
    if !case["stats_cache"].as_bool().unwrap_or(true) {
        cm = cm.with_file_statistics_cache(None).with_file_statistics_cache_limit(0);
    }
    let rt = match RuntimeEnvBuilder::new().with_cache_manager(cm).build_arc() {
        Ok(r) => r,
        Err(e) => return violation("unexpected-error", format!("runtime: {e}")),
    };
    let url = url::Url::parse("sim://bucket").unwrap();
    rt.register_object_store(&url, store.clone());
    let mut cfg = env.session_config();
    let _ = cfg.options_mut().set("datafusion.execution.collect_statistics", "true");
    let ctx = SessionContext::new_with_config_rt(cfg, rt);

    // model: current files
    let mut files: Vec<Option<Vec<(i64, String)>>> = vec![];
    let mk_rows = |base: u64, n: u64| -> Vec<(i64, String)> { (0..n).map(|i| ((base + i) as i64, format!("r{}", base + i))).collect() };
    let init = case["initial"].as_array().cloned().unwrap_or_default();
    for (i, n) in init.iter().enumerate() {
        let rows = mk_rows(i as u64 * 100, n.as_u64().unwrap_or(1).min(10));
        let _ = store.inner.put(&Path::from(format!("t/f{i}.parquet")), PutPayload::from(parquet_bytes(&rows))).await;
        files.push(Some(rows));
    }
    let ddl = "CREATE EXTERNAL TABLE t STORED AS PARQUET LOCATION 'sim://bucket/t/'";
    if files.iter().all(|f| f.is_none()) {
        return Outcome::Pass;
    }
    if let Err(e) = ctx.sql(ddl).await {
        return violation("template-error", format!("{e}"));
    }
    // when the cached listing (if any) was filled, in simulated ms; None = no valid listing is cached.
    // CREATE EXTERNAL TABLE lists the location itself (schema inference) and thereby fills the cache.
    let mut listing_filled_at: Option<u64> = Some(clock.now_ms());
    let mut listing_is_current = true;
    for (step, o) in ops.iter().enumerate() {
        let op = o["op"].as_str().unwrap_or("");
        match op {
            "query" => {
                let q = if o["q"].as_u64() == Some(0) { "SELECT count(*), min(id), max(id) FROM t" } else { "SELECT id, s FROM t" };
                let now = clock.now_ms();
                let listing_may_be_cached = list_cache_on
                    && listing_filled_at.is_some_and(|t| match list_ttl {
                        None => true,
                        Some(ttl) => now <= t + ttl,
                    });
                let must_be_current = !listing_may_be_cached || listing_is_current;
                let ex = sqlsim::execute_sql(&ctx, q, Consume::Stream, None).await;
                let live: Vec<&Vec<(i64, String)>> = files.iter().flatten().collect();
                let expected: Vec<Cells> = if o["q"].as_u64() == Some(0) {
                    let all: Vec<i64> = live.iter().flat_map(|f| f.iter().map(|r| r.0)).collect();
                    vec![vec![Some(all.len().to_string()), all.iter().min().map(|x| x.to_string()), all.iter().max().map(|x| x.to_string())]]
                } else {
                    live.iter().flat_map(|f| f.iter().map(|r| vec![Some(r.0.to_string()), Some(r.1.clone())])).collect()
                };
                if must_be_current {
                    match &ex.result {
                        Err(e) => {
                            if !live.is_empty() {
                                return violation("unexpected-error", format!("step {step}: `{q}` failed although its caches cannot be valid: {}", sqlsim::error_text(e)));
                            }
                        }
                        Ok(rows) => {
                            if let Some(d) = sqlsim::compare(rows, &expected, false) {
                                return violation(
                                    "stale-answer",
                                    format!("step {step}: `{q}` does not reflect the current files (listing cache {}, clock {now}ms): {d}", if listing_may_be_cached { "valid and current" } else { "expired, dropped or disabled" }),
                                );
                            }
                            sim::probe("probe.query_checked_against_current_files");
                        }
                    }
                } else {
                    sim::probe("probe.query_within_listing_ttl_unchecked");
                }
                if !listing_may_be_cached {
                    // this query had to list again
                    listing_filled_at = Some(now);
                    listing_is_current = true;
                }
            }
            "rewrite" => {
                let i = (o["f"].as_u64().unwrap_or(0) as usize) % files.len().max(1);
                if files.get(i).is_some_and(|f| f.is_some()) {
                    let rows = mk_rows(o["base"].as_u64().unwrap_or(0) + 5000, o["rows"].as_u64().unwrap_or(1).min(10));
                    let _ = store.inner.put(&Path::from(format!("t/f{i}.parquet")), PutPayload::from(parquet_bytes(&rows))).await;
                    files[i] = Some(rows);
                    listing_is_current = false;
                    sim::probe("probe.file_rewritten");
                }
            }
            "add" => {
                if files.len() < 6 {
                    let i = files.len();
                    let rows = mk_rows(o["base"].as_u64().unwrap_or(0) + 9000, o["rows"].as_u64().unwrap_or(1).min(10));
                    let _ = store.inner.put(&Path::from(format!("t/f{i}.parquet")), PutPayload::from(parquet_bytes(&rows))).await;
                    files.push(Some(rows));
                    listing_is_current = false;
                }
            }
            "delete" => {
                let i = (o["f"].as_u64().unwrap_or(0) as usize) % files.len().max(1);
                if files.get(i).is_some_and(|f| f.is_some()) && files.iter().flatten().count() > 1 {
                    let _ = store.inner.delete(&Path::from(format!("t/f{i}.parquet"))).await;
                    files[i] = None;
                    listing_is_current = false;
                }
            }
            "advance" => clock.advance(o["ms"].as_u64().unwrap_or(1).min(1_000_000)),
            "drop_recreate" => {
                if ctx.sql("DROP TABLE t").await.is_err() {
                    return violation("unexpected-error", "DROP TABLE failed".into());
                }
                if let Err(e) = ctx.sql(ddl).await {
                    return violation("unexpected-error", format!("re-create failed: {e}"));
                }
                // CREATE EXTERNAL TABLE lists the location itself (schema inference)
                listing_filled_at = Some(clock.now_ms());
                listing_is_current = true;
                sim::probe("probe.table_dropped_and_recreated");
            }
            _ => {}
        }
    }
    Outcome::Pass
}

pub fn check() -> Check {
    Check {
        property: "C40",
        level: "exploration",
        scenarios: vec![Box::new(CacheModel), Box::new(Files)],
        cases_quick: 20_000,
        cases_thorough: 500_000,
        rule: "c40-cache (3/4): histories of 3-30 operations (put with sizes 0 .. > limit, get, contains_key, remove, clear, update_cache_limit, update_cache_ttl, advance clock by 1/99/100/101/500 ms, drop_table_entries) over 12 table-scoped keys on the real DefaultCache with the clock behind the TimeProvider seam, compared operation by operation with a reference LRU-with-TTL map; memory_used() == sum of key+value sizes <= limit and len() after every operation. c40-files: histories of query / rewrite file / add file / delete file / advance clock / DROP+CREATE on a Parquet listing table over the simulated object store with list-files cache (TTL on the simulated clock), file-statistics cache and Parquet metadata cache; every query planned when the cached listing cannot be valid any more (expired, table dropped, cache off) or is still current must answer (count/min/max from statistics, and full rows) for the current files; queries inside the TTL after a change are not constrained. distinct = distinct histories/traces",
        assumptions: vec!["the in-memory object store stamps last_modified from the wall clock, so a rewrite always changes the modification time; the same-size-same-mtime case is not generated", "contains_key does not refresh recency (as documented by LruQueue)"],
        components: json!({
            "real": ["execution/src/cache/default_cache.rs + lru_queue.rs", "cache_manager.rs", "ListingTable listing/statistics caching (catalog-listing)", "datasource-parquet metadata cache", "parquet reader/writer"],
            "stub": ["clock: SimClock behind TimeProvider", "object store: SimObjectStore"],
        }),
    }
}
