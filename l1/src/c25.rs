//! C25 — written files read back to the data that was written (the storage-and-schedule slice).
//! COPY ... TO / INSERT INTO a listing table through the real sinks (demultiplexer, per-file
//! serialisers, ordered joins, multipart uploads) against the simulated object store: seeded PUT /
//! part latencies (parts complete out of order), seeded task schedules, single and multiple output
//! files, hive partition columns whose values need escaping. Oracle: reported count == rows
//! written; reading the target back with the written schema yields exactly the written multiset.

use crate::envutil::EnvSpec;
use crate::objstore::{SimObjectStore, StoreSpec};
use crate::runner::{Check, Outcome, RunFuture, Scenario, violation};
use crate::sim;
use crate::sqlsim::{self, Cells, Consume};
use arrow::array::{Int64Array, RecordBatch, StringArray};
use arrow::datatypes::{DataType, Field, Schema};
use datafusion::datasource::MemTable;
use datafusion::prelude::SessionContext;
use dst_common::Tier;
use dst_common::rng::Rng;
use futures::StreamExt;
use object_store::ObjectStore;
use serde_json::{Value, json};
use std::sync::Arc;

pub struct WriteReadBack;

const STRINGS: &[&str] = &["plain", "with,comma", "with \"quote\"", "tab\there", "ünï©ødé ✓", " lead", "trail ", "a=b", "x/y", "100%", "semi;colon", "pipe|", "'single'"];
const PART_VALUES: &[&str] = &["p", "with space", "a/b", "k=v", "50%", "ünï", "x+y", "q?m", "c:d", "e&f", "h#i"];

/// C20's storage-write slice: the same statements, but one write-side request of the object store
/// (a PUT, a multipart part, or the completion of a multipart upload) fails. The statement must
/// fail; it must never report a row count as if everything had been stored.
pub struct WriteFaults;

impl Scenario for WriteFaults {
    fn name(&self) -> &'static str {
        "c20-sink"
    }
    fn generate(&self, rng: &mut Rng, tier: Tier) -> Value {
        let mut case = WriteReadBack.generate(rng, tier);
        // at least one non-empty batch, so that something is uploaded
        if case["rows"].as_array().is_some_and(|p| p.iter().all(|b| b.as_array().is_some_and(|b| b.iter().all(|r| r.as_array().is_some_and(|r| r.is_empty()))))) {
            case["rows"] = json!([[[[1, "plain", "p", 0], [2, Value::Null, "k=v", 1]]]]);
        }
        let kind = *rng.pick(&["put", "part", "part", "complete"]);
        if kind != "put" {
            case["writer_buffer"] = json!(*rng.pick(&[16u64, 64, 300]));
        }
        case["store"]["fail_write"] = json!({"kind": kind, "nth": if kind == "part" { rng.below(12) } else { rng.below(4) }});
        case
    }
    fn run(&self, case: Value) -> RunFuture {
        Box::pin(async move { run(case, true).await })
    }
}

impl Scenario for WriteReadBack {
    fn name(&self) -> &'static str {
        "c25-write-readback"
    }
    fn generate(&self, rng: &mut Rng, _tier: Tier) -> Value {
        let format = *rng.pick(&["parquet", "parquet", "csv", "json", "arrow"]);
        let nparts = rng.range(1, 3);
        let mut id = 0u64;
        let parts: Vec<Value> = (0..nparts)
            .map(|_| {
                let nb = rng.range(0, 3);
                json!((0..nb)
                    .map(|_| {
                        let n = rng.range(0, 6);
                        json!((0..n)
                            .map(|_| {
                                id += 1;
                                let s = if rng.chance(1, 6) {
                                    Value::Null
                                } else if format != "csv" && rng.chance(1, 8) {
                                    json!("line\nbreak")
                                } else {
                                    json!(*rng.pick(STRINGS))
                                };
                                json!([id, s, *rng.pick(PART_VALUES), rng.below(3)])
                            })
                            .collect::<Vec<_>>())
                    })
                    .collect::<Vec<_>>())
            })
            .collect();
        let partitioned = *rng.pick(&["none", "none", "p1", "p1p2"]);
        json!({
            "format": format,
            "rows": parts,
            "partitioned": partitioned,
            "via": *rng.pick(&["copy", "copy", "insert"]),
            "target_partitions": rng.range(1, 4),
            "soft_max_rows": *rng.pick(&[1u64, 3, 50_000_000]),
            "min_parallel_files": *rng.pick(&[1u64, 1, 2, 4]),
            "single_file": rng.chance(1, 4),
            // four more column types derived from id: DOUBLE, BOOLEAN (with NULLs), DATE, DECIMAL(10,2)
            "extra_types": rng.chance(1, 2),
            // small object-store writer buffers turn every upload into a multipart upload of many parts
            "writer_buffer": *rng.pick(&[10_485_760u64, 16, 64, 300, 2000]),
            "store": {
                "chunk": *rng.pick(&[0u64, 0, 7, 100]),
                "pending_every": *rng.pick(&[0u64, 0, 2]),
                "latency_ms": *rng.pick(&[0u64, 3, 20]),
                "fail_get": Value::Null,
                "part_latency_ms": [rng.below(40), rng.below(40), rng.below(40)],
            },
            "env": EnvSpec::generate(rng, false),
        })
    }
    fn run(&self, case: Value) -> RunFuture {
        Box::pin(async move { run(case, false).await })
    }
}

async fn run(case: Value, write_faults: bool) -> Outcome {
    let Some(spec) = StoreSpec::parse(&case["store"]) else { return Outcome::Invalid };
    if spec.fail_write.is_some() != write_faults {
        return Outcome::Invalid;
    }
    let Some(env) = EnvSpec::parse(&case["env"]) else { return Outcome::Invalid };
    let format = case["format"].as_str().unwrap_or("parquet").to_string();
    if !["parquet", "csv", "json", "arrow"].contains(&format.as_str()) {
        return Outcome::Invalid;
    }
    let partitioned = case["partitioned"].as_str().unwrap_or("none").to_string();
    let via_insert = case["via"].as_str() == Some("insert");
    let single_file = case["single_file"].as_bool().unwrap_or(false) && partitioned == "none" && !via_insert;
    // source data
    let schema = Arc::new(Schema::new(vec![
        Field::new("id", DataType::Int64, false),
        Field::new("s", DataType::Utf8, true),
        Field::new("p1", DataType::Utf8, false),
        Field::new("p2", DataType::Int64, false),
    ]));
    let Some(parts) = case["rows"].as_array() else { return Outcome::Invalid };
    if parts.is_empty() || parts.len() > 4 {
        return Outcome::Invalid;
    }
    let extra = case["extra_types"].as_bool().unwrap_or(false);
    let mut expected: Vec<Cells> = vec![];
    let mut mem_parts: Vec<Vec<RecordBatch>> = vec![];
    for p in parts {
        let mut batches = vec![];
        for b in p.as_array().cloned().unwrap_or_default() {
            let rows = b.as_array().cloned().unwrap_or_default();
            let mut ids = vec![];
            let mut ss: Vec<Option<String>> = vec![];
            let mut p1 = vec![];
            let mut p2 = vec![];
            for r in &rows {
                let (Some(id), Some(a), Some(b2)) = (r[0].as_i64(), r[2].as_str(), r[3].as_i64()) else { return Outcome::Invalid };
                if a.is_empty() {
                    return Outcome::Invalid;
                }
                ids.push(id);
                ss.push(r[1].as_str().map(|x| x.to_string()));
                p1.push(a.to_string());
                p2.push(b2);
                let s_cell = match (&format[..], r[1].as_str()) {
                    // CSV has one encoding for NULL and the empty string
                    ("csv", Some("")) => None,
                    (_, x) => x.map(|y| y.to_string()),
                };
                let mut row = vec![Some(id.to_string()), s_cell, Some(a.to_string()), Some(b2.to_string())];
                if extra {
                    if !(0..20).contains(&id) && !(0..10_000).contains(&id) {
                        return Outcome::Invalid;
                    }
                    // f = id * 0.25, b = id % 3 = 0 (NULL when id % 5 = 0), d = 1970-01-01 + (id % 28) days, dc = id.00
                    let f = id as f64 * 0.25;
                    row.push(Some(if f.fract() == 0.0 { format!("{f:.1}") } else { format!("{f}") }));
                    row.push(if id % 5 == 0 { None } else { Some((id % 3 == 0).to_string()) });
                    row.push(Some(format!("1970-01-{:02}", id % 28 + 1)));
                    row.push(Some(format!("{id}.00")));
                }
                expected.push(row);
            }
            if rows.is_empty() {
                continue;
            }
            batches.push(
                RecordBatch::try_new(
                    schema.clone(),
                    vec![Arc::new(Int64Array::from(ids)), Arc::new(StringArray::from(ss)), Arc::new(StringArray::from(p1)), Arc::new(Int64Array::from(p2))],
                )
                .unwrap(),
            );
        }
        mem_parts.push(batches);
    }
    let store = SimObjectStore::new(spec);
    let cx = env.build();
    let mut cfg = env.session_config().with_target_partitions(case["target_partitions"].as_u64().unwrap_or(2).clamp(1, 8) as usize);
    {
        let o = cfg.options_mut();
        let _ = o.set("datafusion.execution.soft_max_rows_per_output_file", &case["soft_max_rows"].as_u64().unwrap_or(50_000_000).max(1).to_string());
        // the data is written with Utf8 strings: declare the read-back schema with the same type
        let _ = o.set("datafusion.sql_parser.map_string_types_to_utf8view", "false");
        let _ = o.set("datafusion.execution.objectstore_writer_buffer_size", &case["writer_buffer"].as_u64().unwrap_or(10_485_760).clamp(1, 1 << 30).to_string());
        let _ = o.set("datafusion.execution.minimum_parallel_output_files", &case["min_parallel_files"].as_u64().unwrap_or(1).clamp(1, 8).to_string());
    }
    let ctx = SessionContext::new_with_config_rt(cfg, cx.runtime.clone());
    ctx.register_object_store(&url::Url::parse("sim://bucket").unwrap(), store.clone());
    let Ok(mt) = MemTable::try_new(schema.clone(), mem_parts) else { return Outcome::Invalid };
    if ctx.register_table("src", Arc::new(mt)).is_err() {
        return Outcome::Invalid;
    }
    let stored = match format.as_str() {
        "parquet" => "PARQUET",
        "csv" => "CSV",
        "json" => "JSON",
        _ => "ARROW",
    };
    let part_cols = match partitioned.as_str() {
        "p1" => vec!["p1"],
        "p1p2" => vec!["p1", "p2"],
        _ => vec![],
    };
    let ext = if format == "json" { "json".to_string() } else { format.clone() };
    let location = if single_file { format!("sim://bucket/out/data.{ext}") } else { "sim://bucket/out/".to_string() };
    let table_cols = |with_parts: bool| -> String {
        // partition columns come last in a listing table
        let mut cols = vec!["id BIGINT NOT NULL", "s VARCHAR"];
        if !part_cols.contains(&"p1") || with_parts {
            cols.push("p1 VARCHAR NOT NULL");
        }
        if !part_cols.contains(&"p2") || with_parts {
            cols.push("p2 BIGINT NOT NULL");
        }
        cols.join(", ")
    };
    let csv_opts = if format == "csv" { " OPTIONS ('format.has_header' 'true')" } else { "" };
    let part_clause = if part_cols.is_empty() { String::new() } else { format!(" PARTITIONED BY ({})", part_cols.join(", ")) };
    // data columns first, partition columns last (the order a listing table exposes)
    let mut data_cols: Vec<&str> = ["id", "s", "p1", "p2"].into_iter().filter(|c| !part_cols.contains(c)).collect();
    if extra {
        data_cols.extend(["f", "b", "d", "dc"]);
    }
    let select_expr = |c: &str| -> String {
        match c {
            "f" => "CAST(id AS DOUBLE) * 0.25 AS f".to_string(),
            "b" => "CASE WHEN id % 5 = 0 THEN NULL ELSE id % 3 = 0 END AS b".to_string(),
            "d" => "CAST(CAST(id % 28 AS INT) AS DATE) AS d".to_string(),
            "dc" => "CAST(id AS DECIMAL(10,2)) AS dc".to_string(),
            other => other.to_string(),
        }
    };
    let select_list = data_cols.iter().chain(part_cols.iter()).map(|c| select_expr(c)).collect::<Vec<_>>().join(", ");
    let reported: Option<u64>;
    if via_insert {
        let ddl = format!("CREATE EXTERNAL TABLE sink ({}) STORED AS {stored}{part_clause} LOCATION 'sim://bucket/out/'{csv_opts}", {
            let mut cols: Vec<String> = data_cols.iter().map(|c| col_def(c)).collect();
            cols.extend(part_cols.iter().map(|c| col_def(c)));
            cols.join(", ")
        });
        if let Err(e) = ctx.sql(&ddl).await {
            return violation("template-error", format!("{ddl}: {e}"));
        }
        let ex = sqlsim::execute_sql(&ctx, &format!("INSERT INTO sink SELECT {select_list} FROM src"), Consume::Stream, None).await;
        match ex.result {
            Err(e) if write_fault_fired(&store) => return after_failed_write(ctx, cx, &e).await,
            Err(e) => return violation("unexpected-error", format!("INSERT failed: {}", sqlsim::error_text(&e))),
            Ok(rows) => reported = rows.first().and_then(|r| r.first().cloned().flatten()).and_then(|x| x.parse().ok()),
        }
    } else {
        let sql = format!("COPY (SELECT {select_list} FROM src) TO '{location}' STORED AS {stored}{part_clause}{csv_opts}");
        let ex = sqlsim::execute_sql(&ctx, &sql, Consume::Stream, None).await;
        match ex.result {
            Err(e) if write_fault_fired(&store) => return after_failed_write(ctx, cx, &e).await,
            Err(e) => return violation("unexpected-error", format!("{sql} failed: {}", sqlsim::error_text(&e))),
            Ok(rows) => reported = rows.first().and_then(|r| r.first().cloned().flatten()).and_then(|x| x.parse().ok()),
        }
    }
    let _ = table_cols;
    if write_fault_fired(&store) {
        let (k, n) = store.spec.fail_write.clone().unwrap_or_default();
        return violation(
            "write-error-swallowed",
            format!("the object store failed {k} request #{n} of a {format} write (via {}), yet the statement succeeded and reported {reported:?} rows", if via_insert { "INSERT" } else { "COPY" }),
        );
    }
    if write_faults {
        sim::probe("probe.fault_not_reached");
    }
    if reported != Some(expected.len() as u64) {
        return violation("wrong-count", format!("the statement reported {reported:?} rows, {} were written", expected.len()));
    }
    // everything acknowledged must be in the store now: list it
    let mut n_files = 0u64;
    let mut listing = store.inner.list(None);
    while let Some(m) = listing.next().await {
        if m.is_ok() {
            n_files += 1;
        }
    }
    drop(listing);
    sim::probe_n("probe.files_written", n_files);
    if expected.is_empty() {
        return Outcome::Pass;
    }
    // read back through a fresh listing table with the written schema given explicitly
    let ddl = format!(
        "CREATE EXTERNAL TABLE back ({}) STORED AS {stored}{part_clause} LOCATION '{location}'{csv_opts}",
        data_cols.iter().chain(part_cols.iter()).map(|c| col_def(c)).collect::<Vec<_>>().join(", ")
    );
    if let Err(e) = ctx.sql(&ddl).await {
        return violation("unexpected-error", format!("{ddl}: {e}"));
    }
    let ex = sqlsim::execute_sql(&ctx, if extra { "SELECT id, s, p1, p2, f, b, d, dc FROM back" } else { "SELECT id, s, p1, p2 FROM back" }, Consume::Stream, None).await;
    match ex.result {
        Err(e) => return violation("read-back-error", format!("reading the written {format} files back failed: {}", sqlsim::error_text(&e))),
        Ok(rows) => {
            let rows: Vec<Cells> = if format == "csv" {
                rows.into_iter().map(|mut r| { if r[1].as_deref() == Some("") { r[1] = None; } r }).collect()
            } else {
                rows
            };
            if let Some(d) = sqlsim::compare(&rows, &expected, false) {
                return violation("read-back-mismatch", format!("{format} (partitioned by {partitioned}, {n_files} files, via {}): {d}", if via_insert { "INSERT" } else { "COPY" }));
            }
        }
    }
    sim::probe(&format!("probe.format_{format}"));
    if !part_cols.is_empty() {
        sim::probe("probe.hive_partitioned");
    }
    if n_files > 1 {
        sim::probe("probe.multiple_output_files");
    }
    sim::probe_n("probe.multipart_parts", store.stats.parts.load(std::sync::atomic::Ordering::Relaxed));
    drop(ctx);
    tokio::time::sleep(std::time::Duration::from_secs(600)).await;
    if let Some(v) = cx.quiescence_violation_stats(&[]) {
        return v;
    }
    Outcome::Pass
}

fn write_fault_fired(store: &SimObjectStore) -> bool {
    store.stats.write_errors.load(std::sync::atomic::Ordering::Relaxed) > 0
}

/// The injected storage failure surfaced as the statement's error: what remains to be checked is
/// that everything the statement started is gone afterwards.
async fn after_failed_write(ctx: SessionContext, cx: crate::envutil::Ctx, e: &datafusion_common::DataFusionError) -> Outcome {
    let text = sqlsim::error_text(e);
    if text.contains("simulated") {
        sim::probe("probe.error_surfaced");
    } else {
        sim::probe("probe.error_surfaced_as_other_error");
    }
    drop(ctx);
    tokio::time::sleep(std::time::Duration::from_secs(600)).await;
    if let Some(v) = cx.quiescence_violation_stats(&[]) {
        return v;
    }
    Outcome::Pass
}

fn col_def(c: &str) -> String {
    match c {
        "id" => "id BIGINT NOT NULL".to_string(),
        "s" => "s VARCHAR".to_string(),
        "p1" => "p1 VARCHAR NOT NULL".to_string(),
        "f" => "f DOUBLE".to_string(),
        "b" => "b BOOLEAN".to_string(),
        "d" => "d DATE".to_string(),
        "dc" => "dc DECIMAL(10,2)".to_string(),
        _ => "p2 BIGINT NOT NULL".to_string(),
    }
}

pub fn check() -> Check {
    Check {
        property: "C25",
        level: "exploration",
        scenarios: vec![Box::new(WriteReadBack)],
        cases_quick: 6_000,
        cases_thorough: 150_000,
        rule: "runs: a generated table (1-3 partitions, 0-3 batches, 0-6 rows; strings with separators, quotes, tabs, unicode, leading/trailing blanks, line breaks (not for CSV), NULLs; in half of the runs four more columns of type DOUBLE, BOOLEAN (with NULLs), DATE and DECIMAL(10,2); partition values containing space / = % + ? : & # and non-ASCII) written with COPY ... TO or INSERT INTO a listing table as Parquet, CSV, NDJSON or Arrow, unpartitioned (single file or directory) or hive-partitioned by one or two columns, with soft_max_rows_per_output_file 1/3/unlimited, minimum_parallel_output_files 1-4, object-store writer buffers of 16 B - 10 MiB (small ones force multipart uploads of many parts) and 1-4 target partitions, against the simulated object store (request latency 0/3/20 ms, multipart parts with individual latencies so that they complete out of order, chunked/Pending reads) under a seeded task schedule; the reported count must equal the rows written and reading the location back with the written schema must give exactly the written multiset. distinct = distinct traces",
        assumptions: vec!["samples the format/option matrix; the claim is about completion, assembly and path encoding under schedules and storage latency", "CSV: NULL and the empty string are identified; no line breaks inside CSV values", "empty and NULL partition values are not generated"],
        components: json!({
            "real": ["datasource/src/write (demux, orchestration)", "FileSinkConfig / DataSinkExec", "parquet, csv, json, arrow sinks and readers", "ListingTable + hive partition path encoding/decoding", "object_store BufWriter / multipart"],
            "stub": ["object store: SimObjectStore (latency, out-of-order parts, chunked reads)"],
        }),
    }
}
