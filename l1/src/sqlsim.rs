//! Session-level simulation: real parser, planner, logical and physical optimizers and operators
//! over tables whose partitions are simulated sources, with generated configuration knobs.

use crate::data::{Row, Step, all_rows, parse_table, table_schema};
use crate::envutil::{Ctx, EnvSpec, consume_partitions};
use crate::sim;
use crate::source::{SimSourceExec, SourceStats};
use arrow::array::RecordBatch;
use arrow::compute::SortOptions;
use arrow::datatypes::SchemaRef;
use arrow::util::display::{ArrayFormatter, FormatOptions};
use async_trait::async_trait;
use datafusion::catalog::{Session, TableProvider};
use datafusion::datasource::MemTable;
use datafusion::execution::config::SessionConfig;
use datafusion::datasource::{ViewTable, provider_as_source};
use datafusion::logical_expr::{ColumnarValue, Expr, LogicalPlanBuilder, ScalarFunctionArgs, ScalarUDF, ScalarUDFImpl, Signature, TableType, Volatility};
use std::sync::atomic::{AtomicU64, Ordering};
use datafusion::prelude::SessionContext;
use datafusion_common::{DataFusionError, Result};
use datafusion_physical_expr::expressions::Column;
use datafusion_physical_expr::{LexOrdering, PhysicalSortExpr};
use datafusion_physical_plan::ExecutionPlan;
use dst_common::rng::Rng;
use futures::StreamExt;
use serde_json::{Value, json};
use std::sync::Arc;

pub type Cells = Vec<Option<String>>;

#[derive(Debug)]
pub struct SimTable {
    pub name: String,
    pub scripts: Vec<Vec<Step>>,
    pub stats: Arc<SourceStats>,
    pub sorted_by_k: bool,
    pub unbounded: bool,
    pub accept_filters: bool,
    pub view: bool,
    /// declare the scan as ordered by id (column 0) instead of k
    pub sorted_by_id: bool,
    /// the scan is cooperative by itself, like DataFusion's StreamingTableExec
    pub cooperative: bool,
}

#[async_trait]
impl TableProvider for SimTable {
    fn schema(&self) -> SchemaRef {
        crate::data::schema_for(self.view)
    }
    fn table_type(&self) -> TableType {
        TableType::Base
    }
    async fn scan(
        &self,
        _state: &dyn Session,
        projection: Option<&[usize]>,
        _filters: &[Expr],
        _limit: Option<usize>,
    ) -> Result<Arc<dyn ExecutionPlan>> {
        let proj: Option<Vec<usize>> = projection.map(|p| p.to_vec());
        let ordering = if self.sorted_by_k || self.sorted_by_id {
            // column id is index 0, k is index 1 of the table schema
            let (name, col) = if self.sorted_by_id { ("id", 0) } else { ("k", 1) };
            let pos = match &proj {
                None => Some(col),
                Some(p) => p.iter().position(|c| *c == col),
            };
            pos.and_then(|i| {
                let mut exprs = vec![PhysicalSortExpr::new(Arc::new(Column::new(name, i)), SortOptions { descending: false, nulls_first: true })];
                // bounded tables sorted by k: ids are positional within a partition, so (k, id) is sorted too
                if self.sorted_by_k && !self.sorted_by_id && !self.unbounded {
                    let id_pos = match &proj {
                        None => Some(0),
                        Some(p) => p.iter().position(|c| *c == 0),
                    };
                    if let Some(j) = id_pos {
                        exprs.push(PhysicalSortExpr::new(Arc::new(Column::new("id", j)), SortOptions { descending: false, nulls_first: true }));
                    }
                }
                LexOrdering::new(exprs)
            })
        } else {
            None
        };
        Ok(Arc::new(
            SimSourceExec::build_view(&self.name, self.scripts.clone(), ordering, self.unbounded, proj, Arc::clone(&self.stats), self.view)
                .with_accept_filters(self.accept_filters)
                .with_cooperative(self.cooperative),
        ))
    }
}

// ---------------------------------------------------------------------------------------
// Configuration knobs (semantic-neutral: none of them may change a query's result)

pub fn generate_cfg(rng: &mut Rng) -> Value {
    let mut m = serde_json::Map::new();
    let mut set = |k: &str, v: Value| {
        m.insert(k.to_string(), v);
    };
    set("datafusion.execution.target_partitions", json!(*rng.pick(&[1u64, 2, 3, 4, 4, 8])));
    if rng.chance(1, 2) {
        set("datafusion.optimizer.prefer_hash_join", json!(rng.chance(1, 2)));
    }
    if rng.chance(1, 3) {
        set("datafusion.optimizer.repartition_joins", json!(rng.chance(1, 2)));
    }
    if rng.chance(1, 3) {
        set("datafusion.optimizer.repartition_aggregations", json!(rng.chance(1, 2)));
    }
    if rng.chance(1, 3) {
        set("datafusion.optimizer.repartition_sorts", json!(rng.chance(1, 2)));
    }
    if rng.chance(1, 3) {
        set("datafusion.optimizer.repartition_windows", json!(rng.chance(1, 2)));
    }
    if rng.chance(1, 3) {
        set("datafusion.optimizer.enable_round_robin_repartition", json!(rng.chance(1, 2)));
    }
    if rng.chance(1, 3) {
        set("datafusion.execution.coalesce_batches", json!(rng.chance(1, 2)));
    }
    if rng.chance(1, 2) {
        let v = *rng.pick(&[0u64, 1, 1 << 40]);
        set("datafusion.optimizer.hash_join_single_partition_threshold", json!(v));
        set("datafusion.optimizer.hash_join_single_partition_threshold_rows", json!(v));
    }
    if rng.chance(1, 3) {
        set("datafusion.execution.skip_partial_aggregation_probe_rows_threshold", json!(*rng.pick(&[0u64, 2, 10])));
        set("datafusion.execution.skip_partial_aggregation_probe_ratio_threshold", json!(*rng.pick(&[0.0f64, 0.1, 0.8])));
    }
    if rng.chance(1, 3) {
        set("datafusion.optimizer.enable_dynamic_filter_pushdown", json!(rng.chance(1, 2)));
    }
    if rng.chance(1, 4) {
        set("datafusion.optimizer.enable_topk_aggregation", json!(rng.chance(1, 2)));
    }
    if rng.chance(1, 4) {
        set("datafusion.optimizer.prefer_existing_sort", json!(rng.chance(1, 2)));
    }
    if rng.chance(1, 4) {
        set("datafusion.optimizer.enable_piecewise_merge_join", json!(rng.chance(1, 2)));
    }
    if rng.chance(1, 4) {
        set("datafusion.execution.enforce_batch_size_in_joins", json!(rng.chance(1, 2)));
    }
    if rng.chance(1, 4) {
        set("datafusion.optimizer.enable_sort_pushdown", json!(rng.chance(1, 2)));
    }
    if rng.chance(1, 4) {
        set("datafusion.optimizer.enable_topk_repartition", json!(rng.chance(1, 2)));
    }
    if rng.chance(1, 3) {
        // perfect (array) hash join for dense small integer build sides
        set("datafusion.execution.perfect_hash_join_small_build_threshold", json!(*rng.pick(&[0u64, 2, 8, 1024])));
        set("datafusion.execution.perfect_hash_join_min_key_density", json!(*rng.pick(&[0.0f64, 0.15, 0.5, 1.0])));
    }
    if rng.chance(1, 4) {
        set("datafusion.execution.hash_join_buffering_capacity", json!(*rng.pick(&[1u64, 100, 4096, 1 << 20])));
    }
    if rng.chance(1, 3) {
        set("datafusion.optimizer.enable_window_topn", json!(true));
    }
    for (k, den) in [
        ("datafusion.execution.enable_migration_aggregate", 6),
        ("datafusion.optimizer.enable_distinct_aggregation_soft_limit", 6),
        ("datafusion.optimizer.enable_window_limits", 6),
        ("datafusion.optimizer.enable_physical_uncorrelated_scalar_subquery", 6),
        ("datafusion.optimizer.filter_null_join_keys", 6),
        ("datafusion.optimizer.top_down_join_key_reordering", 8),
        ("datafusion.optimizer.prefer_existing_union", 8),
        ("datafusion.optimizer.enable_leaf_expression_pushdown", 8),
        ("datafusion.optimizer.enable_unions_to_filter", 8),
        ("datafusion.optimizer.enable_join_dynamic_filter_pushdown", 8),
        ("datafusion.optimizer.enable_topk_dynamic_filter_pushdown", 8),
        ("datafusion.optimizer.enable_aggregate_dynamic_filter_pushdown", 8),
        ("datafusion.optimizer.allow_symmetric_joins_without_pruning", 10),
        ("datafusion.execution.use_row_number_estimates_to_optimize_partitioning", 8),
        ("datafusion.execution.collect_statistics", 8),
        ("datafusion.sql_parser.enable_subquery_sort_elimination", 10),
    ] {
        if rng.chance(1, den) {
            set(k, json!(rng.chance(1, 2)));
        }
    }
    if rng.chance(1, 6) {
        set("datafusion.optimizer.subset_repartition_threshold", json!(*rng.pick(&[0u64, 1, 4, 100])));
    }
    if rng.chance(1, 8) {
        set("datafusion.execution.sort_pushdown_buffer_capacity", json!(*rng.pick(&[0u64, 1, 1024, 1 << 30])));
    }
    if rng.chance(1, 8) {
        set("datafusion.optimizer.max_passes", json!(*rng.pick(&[1u64, 2, 3, 5])));
    }
    Value::Object(m)
}

pub fn apply_cfg(mut cfg: SessionConfig, knobs: &Value) -> Option<SessionConfig> {
    for (k, v) in knobs.as_object()? {
        // (the shrinker zeroes numbers: zero optimizer passes is not a configuration, it switches the
        // optimizer off, after which e.g. arrow_cast is never simplified into a cast)
        if k == "datafusion.optimizer.max_passes" && v.as_u64() == Some(0) {
            return None;
        }
        let s = match v {
            Value::String(s) => s.clone(),
            other => other.to_string(),
        };
        if cfg.options_mut().set(k, &s).is_err() {
            return None;
        }
    }
    Some(cfg)
}

// ---------------------------------------------------------------------------------------
// Session construction

pub struct SimSession {
    pub ctx: SessionContext,
    pub env: Ctx,
    pub tables: Vec<(String, Arc<SourceStats>)>,
}

pub struct TableSpec {
    pub name: String,
    pub scripts: Vec<Vec<Step>>,
    pub sorted_by_k: bool,
    pub unbounded: bool,
    pub accept_filters: bool,
    pub view: bool,
    pub sorted_by_id: bool,
    pub cooperative: bool,
    /// `Some("parquet" | "json")`: the table is not a simulated source but files in the simulated
    /// object store (one per partition) behind a listing table
    pub storage: Option<String>,
    pub row_group: usize,
    /// file-backed tables only: hive layout, one directory per value of k (`<table>/k=<k>/part-<p>.<ext>`),
    /// k not stored in the files; only used when no row has a NULL k
    pub hive: bool,
    /// `Some((column, n))`: the table is exposed through a view whose `column` goes through the
    /// identity UDF `boom`, which fails at the evaluation that covers its n-th row (0-based)
    pub udf_fault: Option<(String, u64)>,
}

pub fn parse_tables(v: &Value) -> Option<Vec<TableSpec>> {
    let mut out = vec![];
    for (name, t) in v.as_object()? {
        out.push(TableSpec {
            name: name.clone(),
            scripts: parse_table(t.get("parts")?)?,
            sorted_by_k: t.get("sorted").and_then(|x| x.as_bool()).unwrap_or(false),
            unbounded: t.get("unbounded").and_then(|x| x.as_bool()).unwrap_or(false),
            accept_filters: t.get("filters").and_then(|x| x.as_bool()).unwrap_or(false),
            view: t.get("view").and_then(|x| x.as_bool()).unwrap_or(false),
            sorted_by_id: t.get("order").and_then(|x| x.as_str()) == Some("id"),
            cooperative: t.get("coop").and_then(|x| x.as_bool()).unwrap_or(false),
            storage: match t.get("storage").and_then(|x| x.as_str()) {
                Some(f) if ["parquet", "json"].contains(&f) => Some(f.to_string()),
                Some(_) => return None,
                None => None,
            },
            row_group: t.get("row_group").and_then(|x| x.as_u64()).unwrap_or(1000).clamp(1, 1 << 20) as usize,
            hive: t.get("hive").and_then(|x| x.as_bool()).unwrap_or(false),
            udf_fault: match t.get("udf_fault") {
                None | Some(Value::Null) => None,
                Some(f) => {
                    let col = f.get("col")?.as_str()?;
                    if !["k", "v"].contains(&col) {
                        return None;
                    }
                    Some((col.to_string(), f.get("row")?.as_u64()?))
                }
            },
        });
    }
    if out.is_empty() || out.len() > 4 {
        return None;
    }
    // a table that declares itself sorted must be sorted (the shrinker may have edited rows)
    for t in &out {
        if t.sorted_by_k {
            for p in &t.scripts {
                let mut last: Option<Option<i32>> = None;
                for st in p {
                    if let Step::Batch(rs) = st {
                        for r in rs {
                            if last.is_some_and(|l| r.k < l) {
                                return None;
                            }
                            last = Some(r.k);
                        }
                    }
                }
            }
        }
    }
    Some(out)
}

pub fn build_session(env: &EnvSpec, knobs: &Value, tables: &[TableSpec]) -> Option<SimSession> {
    let cx = env.build();
    let cfg = apply_cfg(env.session_config(), knobs)?;
    let ctx = SessionContext::new_with_config_rt(cfg, Arc::clone(&cx.runtime));
    let mut stats = vec![];
    for t in tables {
        if t.storage.is_some() && !all_rows(&t.scripts).is_empty() {
            // registered by `register_file_tables` (needs the object store and an async context)
            continue;
        }
        let st = Arc::new(SourceStats::default());
        let tbl = SimTable {
            name: t.name.clone(),
            scripts: t.scripts.clone(),
            stats: Arc::clone(&st),
            sorted_by_k: t.sorted_by_k,
            unbounded: t.unbounded,
            accept_filters: t.accept_filters,
            view: t.view,
            sorted_by_id: t.sorted_by_id,
            cooperative: t.cooperative,
        };
        match &t.udf_fault {
            None => {
                ctx.register_table(t.name.as_str(), Arc::new(tbl)).ok()?;
            }
            Some((col, row)) => {
                // the function seam: `<name>` is a view over the raw table in which one column goes
                // through an identity UDF that fails at a scripted row
                let udf = ScalarUDF::new_from_impl(Boom::new(format!("boom_{}", t.name), *row));
                let raw = format!("{}_raw", t.name);
                let source = provider_as_source(Arc::new(tbl));
                let exprs: Vec<Expr> = ["id", "k", "s", "v"]
                    .iter()
                    .map(|c| if c == col { udf.call(vec![datafusion::prelude::col(*c)]).alias(*c) } else { datafusion::prelude::col(*c) })
                    .collect();
                let plan = LogicalPlanBuilder::scan(raw, source, None).ok()?.project(exprs).ok()?.build().ok()?;
                ctx.register_table(t.name.as_str(), Arc::new(ViewTable::new(plan, None))).ok()?;
            }
        }
        stats.push((t.name.clone(), st));
    }
    Some(SimSession { ctx, env: cx, tables: stats })
}

/// File-backed tables: writes one file per non-empty partition into a simulated object store
/// (chunked / pending / delayed GETs from `store`), registers the store under sim://bucket and a
/// listing table over each table's directory. Returns the store (for its statistics).
pub async fn register_file_tables(sess: &SimSession, tables: &[TableSpec], store: &Value) -> std::result::Result<Option<Arc<crate::objstore::SimObjectStore>>, String> {
    use object_store::path::Path;
    use object_store::{ObjectStoreExt, PutPayload};
    if !tables.iter().any(|t| t.storage.is_some() && !all_rows(&t.scripts).is_empty()) {
        return Ok(None);
    }
    let spec = crate::objstore::StoreSpec::parse(store).unwrap_or_default();
    let st = crate::objstore::SimObjectStore::new(spec);
    sess.ctx.register_object_store(&url::Url::parse("sim://bucket").unwrap(), st.clone());
    for t in tables {
        let Some(fmt) = &t.storage else { continue };
        if all_rows(&t.scripts).is_empty() {
            continue;
        }
        let hive = t.hive && all_rows(&t.scripts).iter().all(|r| r.k.is_some());
        // (partition p, Some(k) in hive layout) -> rows of one file
        let mut files: Vec<(usize, Option<i32>, Vec<Row>)> = vec![];
        for (p, script) in t.scripts.iter().enumerate() {
            let rows: Vec<Row> = script.iter().filter_map(|s| if let Step::Batch(r) = s { Some(r.clone()) } else { None }).flatten().collect();
            if !hive {
                files.push((p, None, rows));
            } else {
                let mut by_k: std::collections::BTreeMap<i32, Vec<Row>> = Default::default();
                for r in rows {
                    by_k.entry(r.k.unwrap_or(0)).or_default().push(r);
                }
                files.extend(by_k.into_iter().map(|(k, rows)| (p, Some(k), rows)));
            }
        }
        for (p, hive_k, rows) in files {
            if rows.is_empty() {
                continue;
            }
            let bytes: Vec<u8> = if fmt == "parquet" {
                let mut batch = crate::data::rows_to_batch(&rows);
                if hive_k.is_some() {
                    // the partition column lives in the path, not in the file
                    batch = batch.project(&[0, 2, 3]).map_err(|e| e.to_string())?;
                }
                let props = datafusion::parquet::file::properties::WriterProperties::builder().set_max_row_group_row_count(Some(t.row_group.max(1))).build();
                let mut buf = vec![];
                let mut w = datafusion::parquet::arrow::ArrowWriter::try_new(&mut buf, batch.schema(), Some(props)).map_err(|e| e.to_string())?;
                w.write(&batch).map_err(|e| e.to_string())?;
                w.close().map_err(|e| e.to_string())?;
                buf
            } else {
                rows.iter()
                    .map(|r| {
                        let mut m = serde_json::Map::new();
                        m.insert("id".into(), json!(r.id));
                        if hive_k.is_none() {
                            m.insert("k".into(), json!(r.k));
                        }
                        m.insert("s".into(), json!(r.s));
                        m.insert("v".into(), json!(r.v));
                        format!("{}\n", Value::Object(m))
                    })
                    .collect::<String>()
                    .into_bytes()
            };
            let path = match hive_k {
                Some(k) => Path::from(format!("{}/k={k}/part-{p}.{fmt}", t.name)),
                None => Path::from(format!("{}/part-{p}.{fmt}", t.name)),
            };
            st.inner.put(&path, PutPayload::from(bytes)).await.map_err(|e| e.to_string())?;
        }
        let stored = if fmt == "parquet" { "PARQUET" } else { "JSON" };
        let ddl = if hive {
            sim::probe("probe.hive_partitioned_table");
            format!("CREATE EXTERNAL TABLE {} (id BIGINT NOT NULL, s VARCHAR, v BIGINT, k INT) STORED AS {stored} PARTITIONED BY (k) LOCATION 'sim://bucket/{}/'", t.name, t.name)
        } else {
            format!("CREATE EXTERNAL TABLE {} (id BIGINT NOT NULL, k INT, s VARCHAR, v BIGINT) STORED AS {stored} LOCATION 'sim://bucket/{}/'", t.name, t.name)
        };
        sess.ctx.sql(&ddl).await.map_err(|e| format!("{ddl}: {e}"))?;
    }
    Ok(Some(st))
}

/// Semantic-neutral options of file scans (only meaningful for file-backed tables).
pub fn generate_file_cfg(rng: &mut Rng, knobs: &mut Value) {
    let mut set = |k: &str, v: Value| {
        knobs[k] = v;
    };
    set("datafusion.optimizer.repartition_file_min_size", json!(*rng.pick(&[1u64, 1, 64, 1_000_000])));
    for (k, den) in [
        ("datafusion.optimizer.repartition_file_scans", 4),
        ("datafusion.execution.enable_file_stream_work_stealing", 3),
        ("datafusion.execution.parquet.pushdown_filters", 2),
        ("datafusion.execution.parquet.reorder_filters", 3),
        ("datafusion.execution.parquet.enable_page_index", 4),
        ("datafusion.execution.parquet.pruning", 6),
        ("datafusion.execution.parquet.bloom_filter_on_read", 6),
        ("datafusion.execution.parquet.force_filter_selections", 6),
        ("datafusion.execution.parquet.schema_force_view_types", 4),
        ("datafusion.execution.split_file_groups_by_statistics", 6),
        ("datafusion.execution.collect_statistics", 4),
    ] {
        if rng.chance(1, den) {
            set(k, json!(rng.chance(1, 2)));
        }
    }
    if rng.chance(1, 4) {
        set("datafusion.execution.parquet.metadata_size_hint", json!(*rng.pick(&[8u64, 64, 524_288])));
    }
    if rng.chance(1, 3) {
        set("datafusion.optimizer.preserve_file_partitions", json!(*rng.pick(&[0u64, 1, 1, 2, 4])));
    }
    if rng.chance(1, 6) {
        set("datafusion.execution.meta_fetch_concurrency", json!(*rng.pick(&[1u64, 2, 32])));
    }
}

/// The baseline configuration of C02/C18: default options, every table a single-partition
/// MemTable holding the same rows, unlimited memory, no faults.
pub fn build_baseline(tables: &[TableSpec]) -> Option<SessionContext> {
    let cfg = SessionConfig::new().with_target_partitions(1);
    let ctx = SessionContext::new_with_config(cfg);
    for t in tables {
        let rows = all_rows(&t.scripts);
        let batch = crate::data::rows_to_batch_for(&rows, t.view);
        let mt = MemTable::try_new(crate::data::schema_for(t.view), vec![vec![batch]]).ok()?;
        ctx.register_table(t.name.as_str(), Arc::new(mt)).ok()?;
    }
    Some(ctx)
}

pub fn rows_of(tables: &[TableSpec], name: &str) -> Vec<Row> {
    tables.iter().find(|t| t.name == name).map(|t| all_rows(&t.scripts)).unwrap_or_default()
}

// ---------------------------------------------------------------------------------------
// The function seam: an identity scalar UDF that fails at a scripted row

#[derive(Debug)]
pub struct Boom {
    name: String,
    signature: Signature,
    fail_row: u64,
    seen: AtomicU64,
}

impl Boom {
    pub fn new(name: String, fail_row: u64) -> Self {
        Boom { name, signature: Signature::any(1, Volatility::Volatile), fail_row, seen: AtomicU64::new(0) }
    }
}
impl PartialEq for Boom {
    fn eq(&self, o: &Self) -> bool {
        self.name == o.name && self.fail_row == o.fail_row
    }
}
impl Eq for Boom {}
impl std::hash::Hash for Boom {
    fn hash<H: std::hash::Hasher>(&self, h: &mut H) {
        self.name.hash(h);
        self.fail_row.hash(h);
    }
}

impl ScalarUDFImpl for Boom {
    fn name(&self) -> &str {
        &self.name
    }
    fn signature(&self) -> &Signature {
        &self.signature
    }
    fn return_type(&self, arg_types: &[arrow::datatypes::DataType]) -> Result<arrow::datatypes::DataType> {
        Ok(arg_types[0].clone())
    }
    fn invoke_with_args(&self, args: ScalarFunctionArgs) -> Result<ColumnarValue> {
        let n = args.number_rows as u64;
        let before = self.seen.fetch_add(n, Ordering::Relaxed);
        if before <= self.fail_row && self.fail_row < before + n {
            sim::probe("fault.udf_error");
            return Err(DataFusionError::Execution(format!("simulated UDF failure at row {}", self.fail_row)));
        }
        Ok(args.args[0].clone())
    }
}

// ---------------------------------------------------------------------------------------
// Execution and result normalisation

pub fn batches_to_cells(batches: &[RecordBatch]) -> Result<Vec<Cells>> {
    let opts = FormatOptions::default().with_null("\u{0}NULL");
    let mut out = vec![];
    for b in batches {
        let fmts: Vec<ArrayFormatter> =
            b.columns().iter().map(|c| ArrayFormatter::try_new(c.as_ref(), &opts)).collect::<std::result::Result<_, _>>()?;
        for r in 0..b.num_rows() {
            let mut row = vec![];
            for (ci, f) in fmts.iter().enumerate() {
                if b.column(ci).is_null(r) {
                    row.push(None);
                } else {
                    row.push(Some(f.value(r).to_string()));
                }
            }
            out.push(row);
        }
    }
    Ok(out)
}

#[derive(Clone, Copy, Debug, PartialEq)]
pub enum Consume {
    /// one merged stream (DataFrame::execute_stream)
    Stream,
    /// every output partition of the physical plan consumed by its own task
    Partitions,
}

pub struct Executed {
    pub result: Result<Vec<Cells>>,
    pub plan: Option<Arc<dyn ExecutionPlan>>,
    pub dropped_early: bool,
    pub batches_seen: u64,
}

/// Plans `sql` through the real parser, planner and optimizers.
pub async fn plan_sql(ctx: &SessionContext, sql: &str) -> Result<Arc<dyn ExecutionPlan>> {
    let plan = ctx.sql(sql).await?.create_physical_plan().await?;
    probe_plan(&plan);
    if std::env::var_os("VERIF_DEBUG_PLAN").is_some() {
        eprintln!("{}", datafusion_physical_plan::displayable(plan.as_ref()).indent(true));
    }
    Ok(plan)
}

/// Reach measurement: one probe per operator kind in the executed plan (`probe.op.<Name>[mode...]`),
/// so the evidence shows which operators and operator modes the generated queries really ran.
pub fn probe_plan(plan: &Arc<dyn ExecutionPlan>) {
    let line = datafusion_physical_plan::displayable(plan.as_ref()).one_line().to_string();
    let mut key = format!("probe.op.{}", plan.name());
    for attr in ["mode=", "ordering_mode=", "join_type=", "partitioning=", "preserve_order=", "TopK(fetch", "sort_exprs="] {
        if let Some(i) = line.find(attr) {
            if attr == "TopK(fetch" {
                key.push_str(" topk");
                continue;
            }
            if attr == "sort_exprs=" {
                continue;
            }
            let rest = &line[i + attr.len()..];
            let end = rest.find(|c: char| c == ',' || c == '(' || c == ' ' || c == ']' || c == '\n').unwrap_or(rest.len());
            key.push_str(&format!(" {attr}{}", &rest[..end]));
        }
    }
    sim::probe(&key);
    for c in plan.children() {
        probe_plan(c);
    }
}

/// Plans and executes `sql`. With `drop_after = Some(k)` the output is abandoned after k batches.
pub async fn execute_sql(ctx: &SessionContext, sql: &str, consume: Consume, drop_after: Option<u64>) -> Executed {
    let plan = match plan_sql(ctx, sql).await {
        Ok(p) => p,
        Err(e) => return Executed { result: Err(e), plan: None, dropped_early: false, batches_seen: 0 },
    };
    execute_plan(ctx, plan, consume, drop_after).await
}

/// Executes an already planned query (the caller keeps the plan, e.g. to inspect it after a panic).
pub async fn execute_plan(ctx: &SessionContext, plan: Arc<dyn ExecutionPlan>, consume: Consume, drop_after: Option<u64>) -> Executed {
    let task = ctx.task_ctx();
    let mut seen = 0u64;
    let mut dropped = false;
    let result: Result<Vec<RecordBatch>> = match consume {
        Consume::Stream => match datafusion_physical_plan::execute_stream(Arc::clone(&plan), task) {
            Err(e) => Err(e),
            Ok(mut s) => {
                let mut out = vec![];
                let mut err = None;
                if drop_after == Some(0) {
                    dropped = true;
                } else {
                    while let Some(b) = s.next().await {
                        match b {
                            Ok(b) => {
                                seen += 1;
                                sim::trace_event("out_batch", 0);
                                out.push(b);
                                if drop_after.is_some_and(|k| seen >= k) {
                                    dropped = true;
                                    break;
                                }
                            }
                            Err(e) => {
                                err = Some(e);
                                break;
                            }
                        }
                    }
                }
                drop(s);
                match err {
                    Some(e) => Err(e),
                    None => Ok(out),
                }
            }
        },
        Consume::Partitions => {
            let n = plan.properties().partitioning.partition_count();
            let drops: Vec<Option<u64>> = (0..n).map(|p| if p == 0 { drop_after } else { None }).collect();
            dropped = drop_after.is_some();
            let res = consume_partitions(&plan, &task, &drops).await;
            let mut out = vec![];
            let mut err = None;
            for r in res {
                match r {
                    Ok(b) => {
                        seen += b.len() as u64;
                        out.extend(b)
                    }
                    Err(e) => {
                        if err.is_none() {
                            err = Some(e)
                        }
                    }
                }
            }
            match err {
                Some(e) => Err(e),
                None => Ok(out),
            }
        }
    };
    let result = result.and_then(|b| batches_to_cells(&b));
    Executed { result, plan: Some(plan), dropped_early: dropped, batches_seen: seen }
}

pub fn sorted(mut v: Vec<Cells>) -> Vec<Cells> {
    v.sort();
    v
}

/// Compares a result with the expected rows (sequence if `ordered`, multiset otherwise).
pub fn compare(got: &[Cells], want: &[Cells], ordered: bool) -> Option<String> {
    if ordered {
        if got != want {
            let pos = got.iter().zip(want.iter()).position(|(a, b)| a != b).unwrap_or(got.len().min(want.len()));
            return Some(format!(
                "ordered results differ at row {pos}: got {:?}, expected {:?} ({} vs {} rows)",
                got.get(pos),
                want.get(pos),
                got.len(),
                want.len()
            ));
        }
        return None;
    }
    let g = sorted(got.to_vec());
    let w = sorted(want.to_vec());
    if g != w {
        let missing = w.iter().find(|r| count(&w, r) > count(&g, r));
        let extra = g.iter().find(|r| count(&g, r) > count(&w, r));
        return Some(format!("result multisets differ: {} vs {} rows; missing {:?}; unexpected {:?}", g.len(), w.len(), missing, extra));
    }
    None
}
/// Comparison under the template's mode (see `queries::Compare`).
pub fn compare_with(got: &[Cells], want: &[Cells], mode: &crate::queries::Compare, universe: Option<&[Cells]>) -> Option<String> {
    use crate::queries::Compare;
    match mode {
        Compare::Multiset => compare(got, want, false),
        Compare::Sequence => compare(got, want, true),
        Compare::LimitAny | Compare::TopTies { .. } => {
            let Some(u) = universe else { return compare(got, want, false) };
            if got.len() != want.len() {
                return Some(format!("{} rows returned, {} expected (of {} candidates)", got.len(), want.len(), u.len()));
            }
            for r in got {
                if count(got, r) > count(u, r) {
                    return Some(format!("row {r:?} returned {} times, it occurs {} times among the candidates", count(got, r), count(u, r)));
                }
            }
            if let Compare::TopTies { from } = mode {
                let g: Vec<&[Option<String>]> = got.iter().map(|r| &r[(*from).min(r.len())..]).collect();
                let w: Vec<&[Option<String>]> = want.iter().map(|r| &r[(*from).min(r.len())..]).collect();
                if g != w {
                    return Some(format!("ordering values differ: got {g:?}, expected {w:?}"));
                }
            }
            None
        }
    }
}
/// (some expected row is missing from `got`, some row of `got` is not expected) as multisets.
pub fn missing_extra(got: &[Cells], want: &[Cells]) -> (bool, bool) {
    let missing = want.iter().any(|r| count(want, r) > count(got, r));
    let extra = got.iter().any(|r| count(got, r) > count(want, r));
    (missing, extra)
}
fn count(v: &[Cells], r: &Cells) -> usize {
    v.iter().filter(|x| *x == r).count()
}

pub fn error_text(e: &DataFusionError) -> String {
    let s = e.to_string();
    if s.len() > 300 { format!("{}…", &s[..300]) } else { s }
}

/// Identifies, from the executed plan itself, the two known defects of NestedLoopJoinExec's
/// memory-limited spill fallback (known-findings.txt). Only joins that actually took the fallback
/// (spill metrics > 0) count.
///  * "nlj-fallback-left-emission": join type emits left rows in a final step (LEFT, LEFT SEMI,
///    LEFT ANTI, LEFT MARK, FULL) and there is more than one right partition;
///  * "nlj-fallback-right-emission": join type emits right rows in a final step (RIGHT, RIGHT SEMI,
///    RIGHT ANTI, RIGHT MARK, FULL).
/// Third known defect of the same fallback: it executes the join's *left child a second time* (after
/// the first, in-memory attempt ran out of memory). A left subtree holding a RepartitionExec, whose
/// output partitions can be executed only once, then panics ("partition not used yet"). True if the
/// plan has a NestedLoopJoinExec with a RepartitionExec in its left subtree.
pub fn nlj_left_reexecution_shape(plan: &Arc<dyn ExecutionPlan>) -> bool {
    use datafusion_physical_plan::joins::NestedLoopJoinExec;
    use datafusion_physical_plan::repartition::RepartitionExec;
    fn has_repartition(p: &Arc<dyn ExecutionPlan>) -> bool {
        p.downcast_ref::<RepartitionExec>().is_some() || p.children().iter().any(|c| has_repartition(c))
    }
    if let Some(nlj) = plan.downcast_ref::<NestedLoopJoinExec>() {
        if has_repartition(nlj.left()) {
            return true;
        }
    }
    plan.children().iter().any(|c| nlj_left_reexecution_shape(c))
}

/// Fourth symptom of the same re-execution defect: the left child is a *file scan* whose partitions
/// share one work queue of files. If the in-memory attempt runs out of memory while only some of the
/// files have been read (a matter of scheduling), the second execution sees only the files that were
/// still queued: rows of the left side are silently lost. True if the plan has a NestedLoopJoinExec
/// that took its fallback (spill metrics > 0) and has a DataSourceExec in its left subtree.
pub fn nlj_left_reexecution_over_file_scan(plan: &Arc<dyn ExecutionPlan>) -> bool {
    use datafusion_physical_plan::joins::NestedLoopJoinExec;
    fn has_file_scan(p: &Arc<dyn ExecutionPlan>) -> bool {
        p.name() == "DataSourceExec" || p.children().iter().any(|c| has_file_scan(c))
    }
    if let Some(nlj) = plan.downcast_ref::<NestedLoopJoinExec>() {
        let spilled = nlj.metrics().map(|m| m.spill_count().unwrap_or(0) + m.spilled_rows().unwrap_or(0)).unwrap_or(0);
        if spilled > 0 && has_file_scan(nlj.left()) {
            return true;
        }
    }
    plan.children().iter().any(|c| nlj_left_reexecution_over_file_scan(c))
}

/// Known finding (C02): with `preserve_file_partitions >= 1` a hive-partitioned listing table declares
/// `Hash([k], n)` for file groups that are grouped by partition *value*; a partitioned join then takes
/// that side as it is and pairs file group i with hash bucket i of the other (hash-repartitioned) side.
/// True if some join has an input that reaches a file scan declaring Hash partitioning without a
/// RepartitionExec in between.
pub fn join_over_value_grouped_file_scan(plan: &Arc<dyn ExecutionPlan>) -> bool {
    fn reaches_hash_scan(p: &Arc<dyn ExecutionPlan>) -> bool {
        if p.name() == "RepartitionExec" {
            return false;
        }
        if p.name() == "DataSourceExec" {
            return matches!(p.properties().partitioning, datafusion_physical_expr::Partitioning::Hash(_, _));
        }
        p.children().iter().any(|c| reaches_hash_scan(c))
    }
    if plan.name().contains("Join") && plan.children().iter().any(|c| reaches_hash_scan(c)) {
        return true;
    }
    plan.children().iter().any(|c| join_over_value_grouped_file_scan(c))
}

pub fn nlj_fallback_kind(plan: &Arc<dyn ExecutionPlan>) -> Option<&'static str> {
    use datafusion::common::JoinType;
    use datafusion_physical_plan::joins::NestedLoopJoinExec;
    if let Some(nlj) = plan.downcast_ref::<NestedLoopJoinExec>() {
        let jt = *nlj.join_type();
        let left_emission = matches!(jt, JoinType::Left | JoinType::LeftSemi | JoinType::LeftAnti | JoinType::LeftMark | JoinType::Full);
        let right_emission = matches!(jt, JoinType::Right | JoinType::RightSemi | JoinType::RightAnti | JoinType::RightMark | JoinType::Full);
        let right_parts = nlj.right().properties().partitioning.partition_count();
        let spilled = nlj.metrics().map(|m| m.spill_count().unwrap_or(0) + m.spilled_rows().unwrap_or(0)).unwrap_or(0);
        if spilled > 0 {
            if left_emission && right_parts > 1 {
                return Some("nlj-fallback-left-emission");
            }
            if right_emission {
                return Some("nlj-fallback-right-emission");
            }
        }
    }
    plan.children().iter().find_map(|c| nlj_fallback_kind(c))
}

/// True if the plan contains a non-cooperative leaf that no CooperativeExec protects: walking down
/// from the root, a cooperative *lazy* node covers its subtree, and every eager node (an exchange,
/// which drives its inputs from tasks of its own) resets the cover. This is the plan shape of the
/// known EnsureCooperative finding (known-findings.txt): the rule treats a cooperative *eager*
/// ancestor as cover.
pub fn unprotected_noncooperative_leaf(plan: &Arc<dyn ExecutionPlan>) -> bool {
    matches!(unprotected_leaf_kind(plan), Some(true))
}

/// `None`: every non-cooperative leaf is covered. `Some(true)`: there are uncovered leaves and each of
/// them sits below a cooperative *eager* ancestor (the shape of the known finding: the rule takes that
/// exchange for cover). `Some(false)`: some uncovered leaf has no cooperative ancestor of any kind —
/// nothing in the rule as written explains that, so it is not attributed to the known finding.
pub fn unprotected_leaf_kind(plan: &Arc<dyn ExecutionPlan>) -> Option<bool> {
    use datafusion_physical_plan::execution_plan::{EvaluationType, SchedulingType};
    // returns (uncovered leaves explained by a cooperative eager ancestor, unexplained uncovered leaves)
    fn walk(p: &Arc<dyn ExecutionPlan>, covered: bool, coop_eager_above: bool, out: &mut (usize, usize)) {
        let props = p.properties();
        let coop = props.scheduling_type == SchedulingType::Cooperative;
        let eager = props.evaluation_type == EvaluationType::Eager;
        if p.children().is_empty() {
            if !coop && !covered {
                if coop_eager_above {
                    out.0 += 1;
                } else {
                    out.1 += 1;
                }
            }
            return;
        }
        let below = if eager { false } else { covered || coop };
        let eager_coop = if eager { coop } else { coop_eager_above };
        for c in p.children() {
            walk(c, below, eager_coop, out);
        }
    }
    let mut out = (0, 0);
    walk(plan, false, false, &mut out);
    match out {
        (0, 0) => None,
        (_, 0) => Some(true),
        _ => Some(false),
    }
}
