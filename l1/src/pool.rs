//! `NeighbourPool`: a real bounded pool shared with a simulated noisy neighbour. The neighbour is
//! an ordinary consumer of the same pool that grows and shrinks at scripted points (counted in
//! the query's own growth requests), so every refusal the query sees is one a legal multi-tenant
//! deployment can produce.

use crate::sim;
use datafusion_common::Result;
use datafusion_execution::memory_pool::{
    FairSpillPool, GreedyMemoryPool, MemoryConsumer, MemoryLimit, MemoryPool, MemoryReservation, UnboundedMemoryPool,
};
use parking_lot::Mutex;
use std::fmt;
use std::sync::Arc;
use std::sync::atomic::{AtomicU64, Ordering};

#[derive(Debug)]
pub struct NeighbourPool {
    inner: Arc<dyn MemoryPool>,
    neighbour: Mutex<Option<MemoryReservation>>,
    /// (at the n-th growth request of the query, neighbour resizes to this many bytes)
    script: Vec<(u64, usize)>,
    calls: AtomicU64,
    pub refused: AtomicU64,
    pub granted: AtomicU64,
    pub peak_query: AtomicU64,
}

impl NeighbourPool {
    pub fn new(kind: &str, limit: usize, script: Vec<(u64, usize)>) -> Arc<Self> {
        let inner: Arc<dyn MemoryPool> = match kind {
            "fair" => Arc::new(FairSpillPool::new(limit)),
            "unbounded" => Arc::new(UnboundedMemoryPool::default()),
            _ => Arc::new(GreedyMemoryPool::new(limit)),
        };
        let neighbour = if script.is_empty() {
            None
        } else {
            Some(MemoryConsumer::new("noisy-neighbour").register(&inner))
        };
        Arc::new(NeighbourPool {
            inner,
            neighbour: Mutex::new(neighbour),
            script,
            calls: AtomicU64::new(0),
            refused: AtomicU64::new(0),
            granted: AtomicU64::new(0),
            peak_query: AtomicU64::new(0),
        })
    }
    fn neighbour_size(&self) -> usize {
        self.neighbour.lock().as_ref().map(|r| r.size()).unwrap_or(0)
    }
    /// Bytes reserved by the query (everything except the neighbour).
    pub fn query_reserved(&self) -> usize {
        self.inner.reserved().saturating_sub(self.neighbour_size())
    }
    fn tick(&self) {
        let n = self.calls.fetch_add(1, Ordering::Relaxed);
        for (at, target) in &self.script {
            if *at == n {
                if let Some(r) = self.neighbour.lock().as_ref() {
                    // the neighbour itself is a well-behaved consumer: it only takes what is free
                    if *target > r.size() {
                        if r.try_grow(*target - r.size()).is_ok() {
                            sim::probe("probe.neighbour_grew");
                        }
                    } else {
                        r.shrink(r.size() - *target);
                        sim::probe("probe.neighbour_shrank");
                    }
                }
            }
        }
    }
    fn note_peak(&self) {
        let q = self.query_reserved() as u64;
        self.peak_query.fetch_max(q, Ordering::Relaxed);
    }
    /// Releases the neighbour (end of run) so that quiescence checks see only the query.
    pub fn release_neighbour(&self) {
        self.neighbour.lock().take();
    }
}

impl fmt::Display for NeighbourPool {
    fn fmt(&self, f: &mut fmt::Formatter<'_>) -> fmt::Result {
        write!(f, "neighbour({})", self.inner)
    }
}

impl MemoryPool for NeighbourPool {
    fn name(&self) -> &str {
        "neighbour"
    }
    fn register(&self, consumer: &MemoryConsumer) {
        self.inner.register(consumer)
    }
    fn unregister(&self, consumer: &MemoryConsumer) {
        self.inner.unregister(consumer)
    }
    fn grow(&self, reservation: &MemoryReservation, additional: usize) {
        self.tick();
        self.inner.grow(reservation, additional);
        self.note_peak();
    }
    fn shrink(&self, reservation: &MemoryReservation, shrink: usize) {
        self.inner.shrink(reservation, shrink)
    }
    fn try_grow(&self, reservation: &MemoryReservation, additional: usize) -> Result<()> {
        self.tick();
        match self.inner.try_grow(reservation, additional) {
            Ok(()) => {
                self.granted.fetch_add(1, Ordering::Relaxed);
                self.note_peak();
                Ok(())
            }
            Err(e) => {
                self.refused.fetch_add(1, Ordering::Relaxed);
                sim::probe("probe.try_grow_refused");
                sim::trace_event("refused", additional as u64);
                Err(e)
            }
        }
    }
    fn reserved(&self) -> usize {
        self.inner.reserved()
    }
    fn memory_limit(&self) -> MemoryLimit {
        self.inner.memory_limit()
    }
}
