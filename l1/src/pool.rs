//! `NeighbourPool`: a real bounded pool shared with a simulated noisy neighbour. The neighbour is
//! an ordinary consumer of the same pool that grows and shrinks at scripted points (counted in
//! the query's own growth requests), so every refusal the query sees is one a legal multi-tenant
//! deployment can produce.

use crate::sim;
use datafusion_common::Result;
use datafusion_execution::memory_pool::{
    FairSpillPool, GreedyMemoryPool, MemoryConsumer, MemoryLimit, MemoryPool, MemoryReservation, UnboundedMemoryPool,
};
use parking_lot::Mutex;
use std::fmt;
use std::sync::Arc;
use std::sync::atomic::{AtomicU64, Ordering};

#[derive(Debug)]
pub struct NeighbourPool {
    inner: Arc<dyn MemoryPool>,
    neighbour: Mutex<Option<MemoryReservation>>,
    /// (at the n-th growth request of the query, neighbour resizes to this many bytes); with a
    /// duration: the neighbour takes all free memory except that many bytes, and returns to its
    /// previous size `dur` requests later
    script: Vec<(u64, usize, Option<u64>)>,
    limit: usize,
    /// (request number at which a squeeze ends, size to return to)
    restore: Mutex<Vec<(u64, usize)>>,
    calls: AtomicU64,
    pub refused: AtomicU64,
    pub granted: AtomicU64,
    pub peak_query: AtomicU64,
}

thread_local! {
    /// the pool of the run in progress on this (simulation) thread
    static CURRENT: std::cell::RefCell<std::sync::Weak<NeighbourPool>> = const { std::cell::RefCell::new(std::sync::Weak::new()) };
}

/// Bytes the query of the current run holds in its pool right now (the neighbour excluded).
pub fn current_query_reserved() -> Option<usize> {
    CURRENT.with(|c| c.borrow().upgrade().map(|p| p.query_reserved()))
}

impl NeighbourPool {
    pub fn new(kind: &str, limit: usize, script: Vec<(u64, usize, Option<u64>)>) -> Arc<Self> {
        let inner: Arc<dyn MemoryPool> = match kind {
            "fair" => Arc::new(FairSpillPool::new(limit)),
            "unbounded" => Arc::new(UnboundedMemoryPool::default()),
            _ => Arc::new(GreedyMemoryPool::new(limit)),
        };
        let neighbour = if script.is_empty() {
            None
        } else {
            Some(MemoryConsumer::new("noisy-neighbour").register(&inner))
        };
        let pool = Arc::new(NeighbourPool {
            inner,
            neighbour: Mutex::new(neighbour),
            script,
            limit,
            restore: Mutex::new(vec![]),
            calls: AtomicU64::new(0),
            refused: AtomicU64::new(0),
            granted: AtomicU64::new(0),
            peak_query: AtomicU64::new(0),
        });
        CURRENT.with(|c| *c.borrow_mut() = Arc::downgrade(&pool));
        pool
    }
    fn neighbour_size(&self) -> usize {
        self.neighbour.lock().as_ref().map(|r| r.size()).unwrap_or(0)
    }
    /// Bytes reserved by the query (everything except the neighbour).
    pub fn query_reserved(&self) -> usize {
        self.inner.reserved().saturating_sub(self.neighbour_size())
    }
    fn tick(&self) {
        let n = self.calls.fetch_add(1, Ordering::Relaxed);
        // squeezes that end now
        let due: Vec<(u64, usize)> = {
            let mut g = self.restore.lock();
            let (now, later): (Vec<_>, Vec<_>) = g.drain(..).partition(|(at, _)| *at <= n);
            *g = later;
            now
        };
        for (_, back_to) in due {
            if let Some(r) = self.neighbour.lock().as_ref() {
                if r.size() > back_to {
                    r.shrink(r.size() - back_to);
                    sim::probe("probe.neighbour_released_squeeze");
                }
            }
        }
        for (at, target, dur) in &self.script {
            if *at == n {
                if let Some(d) = dur {
                    if let Some(r) = self.neighbour.lock().as_ref() {
                        let free = self.limit.saturating_sub(self.inner.reserved());
                        let take = free.saturating_sub(*target);
                        if take > 0 && r.try_grow(take).is_ok() {
                            sim::probe("probe.neighbour_squeezed");
                            self.restore.lock().push((n + d, r.size() - take));
                        }
                    }
                    continue;
                }
                if let Some(r) = self.neighbour.lock().as_ref() {
                    // the neighbour itself is a well-behaved consumer: it only takes what is free
                    if *target > r.size() {
                        if r.try_grow(*target - r.size()).is_ok() {
                            sim::probe("probe.neighbour_grew");
                        }
                    } else {
                        r.shrink(r.size() - *target);
                        sim::probe("probe.neighbour_shrank");
                    }
                }
            }
        }
    }
    fn note_peak(&self) {
        let q = self.query_reserved() as u64;
        self.peak_query.fetch_max(q, Ordering::Relaxed);
    }
    /// Releases the neighbour (end of run) so that quiescence checks see only the query.
    pub fn release_neighbour(&self) {
        self.neighbour.lock().take();
    }
}

impl fmt::Display for NeighbourPool {
    fn fmt(&self, f: &mut fmt::Formatter<'_>) -> fmt::Result {
        write!(f, "neighbour({})", self.inner)
    }
}

impl MemoryPool for NeighbourPool {
    fn name(&self) -> &str {
        "neighbour"
    }
    fn register(&self, consumer: &MemoryConsumer) {
        self.inner.register(consumer)
    }
    fn unregister(&self, consumer: &MemoryConsumer) {
        self.inner.unregister(consumer)
    }
    fn grow(&self, reservation: &MemoryReservation, additional: usize) {
        self.tick();
        self.inner.grow(reservation, additional);
        self.note_peak();
    }
    fn shrink(&self, reservation: &MemoryReservation, shrink: usize) {
        self.inner.shrink(reservation, shrink)
    }
    fn try_grow(&self, reservation: &MemoryReservation, additional: usize) -> Result<()> {
        self.tick();
        match self.inner.try_grow(reservation, additional) {
            Ok(()) => {
                self.granted.fetch_add(1, Ordering::Relaxed);
                self.note_peak();
                Ok(())
            }
            Err(e) => {
                self.refused.fetch_add(1, Ordering::Relaxed);
                sim::probe("probe.try_grow_refused");
                sim::trace_event("refused", additional as u64);
                Err(e)
            }
        }
    }
    fn reserved(&self) -> usize {
        self.inner.reserved()
    }
    fn memory_limit(&self) -> MemoryLimit {
        self.inner.memory_limit()
    }
}
