//! C08 at operator level: `PartitionedTopKExec` (the per-partition top-K behind ROW_NUMBER / RANK /
//! DENSE_RANK filters) with sort options the SQL planner never asks for: descending and NULLS LAST
//! partition keys, descending order keys. Oracle: per input partition, the multiset of rows is the
//! reference top-K of every key group, and every output stream is in the order the operator declares.

use crate::c53::OrderChecker;
use crate::data::{Row, TableGen, batch_to_rows, parse_table};
use crate::envutil::EnvSpec;
use crate::runner::{Outcome, RunFuture, Scenario, violation};
use crate::sim;
use crate::source::SimSourceExec;
use arrow::compute::SortOptions;
use datafusion_physical_expr::expressions::col;
use datafusion_physical_expr::{LexOrdering, PhysicalSortExpr};
use datafusion_physical_plan::ExecutionPlan;
use datafusion_physical_plan::sorts::partitioned_topk::{PartitionedTopKExec, WindowFnKind};
use dst_common::Tier;
use dst_common::rng::Rng;
use futures::StreamExt;
use serde_json::{Value, json};
use std::collections::BTreeMap;
use std::sync::Arc;

pub struct PartitionedTopK;

impl Scenario for PartitionedTopK {
    fn name(&self) -> &'static str {
        "c08-partitioned-topk"
    }
    fn generate(&self, rng: &mut Rng, tier: Tier) -> Value {
        let big = tier == Tier::Thorough;
        let tg = TableGen { parts: (1, 3), batches: (0, if big { 6 } else { 4 }), rows: (0, if big { 12 } else { 7 }), key_domain: *rng.pick(&[2i64, 4, 8]), ..Default::default() };
        json!({
            "table": tg.generate(rng),
            "kind": *rng.pick(&["row_number", "rank", "dense_rank"]),
            "k_desc": rng.chance(1, 2), "k_nulls_first": rng.chance(1, 2),
            "v_desc": rng.chance(1, 2), "v_nulls_first": rng.chance(1, 2),
            "fetch": rng.range(1, 4),
            "env": EnvSpec::generate(rng, false),
        })
    }
    fn run(&self, case: Value) -> RunFuture {
        Box::pin(async move { run(case).await })
    }
}

fn cmp_opt<T: Ord>(a: &Option<T>, b: &Option<T>, desc: bool, nulls_first: bool) -> std::cmp::Ordering {
    use std::cmp::Ordering::*;
    match (a, b) {
        (None, None) => Equal,
        (None, Some(_)) => if nulls_first { Less } else { Greater },
        (Some(_), None) => if nulls_first { Greater } else { Less },
        (Some(x), Some(y)) => if desc { y.cmp(x) } else { x.cmp(y) },
    }
}

async fn run(case: Value) -> Outcome {
    let Some(table) = parse_table(&case["table"]) else { return Outcome::Invalid };
    let Some(env) = EnvSpec::parse(&case["env"]) else { return Outcome::Invalid };
    let kind_s = case["kind"].as_str().unwrap_or("row_number").to_string();
    let kind = match kind_s.as_str() {
        "row_number" => WindowFnKind::RowNumber,
        "rank" => WindowFnKind::Rank,
        "dense_rank" => WindowFnKind::DenseRank,
        _ => return Outcome::Invalid,
    };
    let b = |k: &str| case[k].as_bool().unwrap_or(false);
    let (kd, knf, vd, vnf) = (b("k_desc"), b("k_nulls_first"), b("v_desc"), b("v_nulls_first"));
    let fetch = case["fetch"].as_u64().unwrap_or(1).clamp(1, 16) as usize;
    let ctx = env.build();
    let schema = crate::data::table_schema();
    let source = Arc::new(SimSourceExec::with_ordering("t", table.clone(), None, false));
    let mut exprs = vec![
        PhysicalSortExpr::new(col("k", &schema).unwrap(), SortOptions { descending: kd, nulls_first: knf }),
        PhysicalSortExpr::new(col("v", &schema).unwrap(), SortOptions { descending: vd, nulls_first: vnf }),
    ];
    if kind_s == "row_number" {
        // a total order inside each key group
        exprs.push(PhysicalSortExpr::new(col("id", &schema).unwrap(), SortOptions { descending: false, nulls_first: false }));
    }
    let Some(ordering) = LexOrdering::new(exprs) else { return Outcome::Invalid };
    let exec = match PartitionedTopKExec::try_new(source.clone(), ordering, 1, fetch, kind) {
        Ok(e) => Arc::new(e) as Arc<dyn ExecutionPlan>,
        Err(e) => return violation("plan-error", format!("PartitionedTopKExec::try_new: {e}")),
    };
    let n_out = exec.properties().partitioning.partition_count();
    if n_out != table.len() {
        return violation("plan-error", format!("{n_out} output partitions for {} input partitions", table.len()));
    }
    for (p, script) in table.iter().enumerate() {
        let mut stream = match exec.execute(p, Arc::clone(&ctx.task)) {
            Ok(s) => s,
            Err(e) => return violation("unexpected-error", format!("{e}")),
        };
        let mut checker = OrderChecker::for_node(&exec);
        let mut got: Vec<Row> = vec![];
        while let Some(batch) = stream.next().await {
            let batch = match batch {
                Ok(b) => b,
                Err(e) => return violation("unexpected-error", format!("partition {p}: {e}")),
            };
            if let Some(c) = checker.as_mut() {
                if let Some(msg) = c.check(&batch) {
                    return violation(
                        "declared-order-violated",
                        format!("PartitionedTopKExec({kind_s}, fetch {fetch}, k desc={kd} nulls_first={knf}, v desc={vd} nulls_first={vnf}) partition {p}: {msg}"),
                    );
                }
            }
            let Some(rows) = batch_to_rows(&batch) else { return violation("schema", "unexpected output schema".into()) };
            got.extend(rows);
        }
        drop(stream);
        // reference: top-K of every key group of this input partition
        let input: Vec<Row> = script.iter().filter_map(|s| if let crate::data::Step::Batch(r) = s { Some(r.clone()) } else { None }).flatten().collect();
        let mut groups: BTreeMap<Option<i32>, Vec<Row>> = BTreeMap::new();
        for r in input {
            groups.entry(r.k).or_default().push(r);
        }
        let mut want: Vec<Row> = vec![];
        for (_, mut rows) in groups {
            rows.sort_by(|x, y| cmp_opt(&x.v, &y.v, vd, vnf).then(x.id.cmp(&y.id)));
            let (mut rank, mut dense) = (0usize, 0usize);
            for (i, r) in rows.iter().enumerate() {
                if i == 0 || rows[i - 1].v != r.v {
                    rank = i + 1;
                    dense += 1;
                }
                let keep = match kind_s.as_str() {
                    "row_number" => i + 1 <= fetch,
                    "rank" => rank <= fetch,
                    _ => dense <= fetch,
                };
                if keep {
                    want.push(r.clone());
                }
            }
        }
        let mut g = got.clone();
        g.sort();
        want.sort();
        if g != want {
            let missing = want.iter().find(|r| !g.contains(r));
            let extra = g.iter().find(|r| !want.contains(r));
            return violation(
                "wrong-result",
                format!("PartitionedTopKExec({kind_s}, fetch {fetch}) partition {p}: {} rows, {} expected; missing {missing:?}; unexpected {extra:?}", g.len(), want.len()),
            );
        }
    }
    sim::probe("probe.result_matched");
    drop(exec);
    tokio::time::sleep(std::time::Duration::from_secs(600)).await;
    if let Some(v) = ctx.quiescence_violation(&[&source]) {
        return v;
    }
    Outcome::Pass
}
