//! C50 — queries accepted over unbounded inputs keep producing results (bounded liveness).
//! The unbounded inputs are simulated partitions that deliver a generated prefix and then keep
//! producing fresh "filler" rows with ever larger keys (a stalled input would make every buffering
//! operator look guilty: the property is conditional on the input continuing). After the inputs
//! have produced a few hundred filler batches, everything determined by the prefix minus one batch
//! of slack per input must have been delivered (liveness, in steps not seconds), and everything
//! delivered that stems from the prefix must be correct for it (safety). Rejected queries are fine.

use crate::data::{Row, Step, all_rows};
use crate::envutil::EnvSpec;
use crate::runner::{Check, Outcome, RunFuture, Scenario, violation};
use crate::sim;
use crate::sqlsim::{self, Cells};
use dst_common::Tier;
use dst_common::rng::Rng;
use futures::StreamExt;
use serde_json::{Value, json};
use std::collections::BTreeMap;

pub struct Unbounded;

/// One partition, sorted by k (NULL-free), batches then "stall".
fn gen_stream_table(rng: &mut Rng, id_sorted_only: bool, filler_base: i64) -> Value {
    let nb = rng.range(1, 6);
    let mut k = 0i64;
    let mut steps = vec![];
    for _ in 0..nb {
        let n = rng.range(1, 5);
        let rows: Vec<Value> = (0..n)
            .map(|_| {
                if !id_sorted_only && rng.chance(1, 2) {
                    k += rng.range(0, 2) as i64;
                } else if id_sorted_only {
                    k = rng.below(4) as i64;
                }
                json!([k, format!("s{}", rng.below(3)), rng.below(100) as i64 - 30])
            })
            .collect();
        if rng.chance(1, 4) {
            steps.push(json!("p"));
        }
        if rng.chance(1, 5) {
            steps.push(json!({"d": rng.range(1, 30)}));
        }
        steps.push(json!({"b": rows}));
    }
    // ... and then the input continues for ever with fresh, ever larger keys
    steps.push(json!({"filler": {"base": filler_base, "stride": 2, "rows": rng.range(1, 3)}}));
    // (cooperative by itself, like the StreamingTableExec the property speaks about; whether the
    // optimizer protects a non-cooperative leaf is C19's subject)
    json!({"parts": [steps], "sorted": !id_sorted_only, "unbounded": true, "coop": true})
}

const SHAPES: &[&str] = &[
    "filter", "union_all", "limit", "window", "window_reversed", "ordered_agg", "shj", "sort_rejected", "hash_agg_unordered", "partial_sort", "spm", "topk_sorted",
    "window_lead", "distinct_ordered", "filter_limit", "join_limit_empty_build",
];

impl Scenario for Unbounded {
    fn name(&self) -> &'static str {
        "c50-unbounded"
    }
    fn generate(&self, rng: &mut Rng, _tier: Tier) -> Value {
        let shape = *rng.pick(SHAPES);
        let unsorted = shape == "hash_agg_unordered";
        // operators may buffer up to a batch: keep batches small so that a few hundred filler rows
        // flush every buffer on every partition
        let mut env = EnvSpec::generate(rng, false);
        env["batch_size"] = json!(*rng.pick(&[1u64, 2, 4, 8]));
        let mut a = gen_stream_table(rng, unsorted, 1000);
        if shape == "window" || shape == "window_reversed" || shape == "window_lead" {
            a["sorted"] = json!(false);
            a["order"] = json!("id");
        }
        json!({
            "shape": shape,
            "tables": {"a": a, "b": gen_stream_table(rng, false, 1001), "e": {"parts": [[]], "sorted": false}},
            "c": rng.below(60) as i64 - 20,
            "n": rng.range(1, 6),
            "knobs": {"datafusion.execution.target_partitions": *rng.pick(&[1u64, 1, 2, 4]), "datafusion.execution.coalesce_batches": rng.chance(1, 2)},
            "env": env,
        })
    }
    fn run(&self, case: Value) -> RunFuture {
        Box::pin(async move { run(case).await })
    }
}

fn cells_of(ids: &[&Row], cols: &[&str]) -> Vec<Cells> {
    ids.iter()
        .map(|r| {
            cols.iter()
                .map(|c| match *c {
                    "id" => Some(r.id.to_string()),
                    "k" => r.k.map(|x| x.to_string()),
                    "s" => r.s.clone(),
                    _ => r.v.map(|x| x.to_string()),
                })
                .collect()
        })
        .collect()
}

/// rows of a table script without its last batch (the slack the engine may legitimately buffer)
fn without_last_batch(script: &[Vec<Step>]) -> Vec<Row> {
    let mut out = vec![];
    for p in script {
        let nb = p.iter().filter(|s| matches!(s, Step::Batch(_))).count();
        let mut seen = 0;
        for s in p {
            if let Step::Batch(r) = s {
                seen += 1;
                if seen < nb {
                    out.extend(r.iter().cloned());
                }
            }
        }
    }
    out
}

async fn run(case: Value) -> Outcome {
    let Some(tables) = sqlsim::parse_tables(&case["tables"]) else { return Outcome::Invalid };
    let Some(env) = EnvSpec::parse(&case["env"]) else { return Outcome::Invalid };
    let shape = case["shape"].as_str().unwrap_or("filter").to_string();
    let c = case["c"].as_i64().unwrap_or(0);
    let n = case["n"].as_u64().unwrap_or(1).clamp(0, 50) as usize;
    let Some(a_spec) = tables.iter().find(|t| t.name == "a") else { return Outcome::Invalid };
    let Some(b_spec) = tables.iter().find(|t| t.name == "b") else { return Outcome::Invalid };
    // both inputs must be unbounded and keep producing (only malformed shrink candidates are not)
    for t in [a_spec, b_spec] {
        let continues = t.scripts.len() == 1 && matches!(t.scripts[0].last(), Some(Step::Filler { .. }));
        if !t.unbounded || !continues {
            return Outcome::Invalid;
        }
    }
    let a = all_rows(&a_spec.scripts);
    let b = all_rows(&b_spec.scripts);
    let a_early = without_last_batch(&a_spec.scripts);
    let b_early = without_last_batch(&b_spec.scripts);

    // (sql, all rows that may be delivered for the prefix, rows that must have been delivered,
    //  the stream must end by itself)
    let (sql, allowed, required, must_end): (String, Vec<Cells>, Vec<Cells>, bool) = match shape.as_str() {
        "filter" => {
            let f = |rows: &[Row]| cells_of(&rows.iter().filter(|r| r.v.is_some_and(|v| v > c)).collect::<Vec<_>>(), &["id", "k", "v"]);
            (format!("SELECT id, k, v FROM a WHERE v > {c}"), f(&a), f(&a_early), false)
        }
        "union_all" => {
            let f = |x: &[Row], y: &[Row]| {
                let mut v = cells_of(&x.iter().collect::<Vec<_>>(), &["id", "k"]);
                v.extend(cells_of(&y.iter().collect::<Vec<_>>(), &["id", "k"]));
                v
            };
            ("SELECT id, k FROM a UNION ALL SELECT id, k FROM b".to_string(), f(&a, &b), f(&a_early, &b_early), false)
        }
        "limit" => {
            let n = n.min(a.len());
            let first: Vec<&Row> = a.iter().take(n).collect();
            let cells = cells_of(&first, &["id"]);
            // with at least n rows in the prefix the LIMIT is reached: all n rows and end-of-stream
            let reached = a.len() >= n;
            (format!("SELECT id FROM a LIMIT {n}"), cells.clone(), if reached { cells } else { cells_of(&a_early.iter().take(n).collect::<Vec<_>>(), &["id"]) }, reached)
        }
        "window" => {
            let w = |rows: &[Row]| -> Vec<Cells> {
                (0..rows.len())
                    .map(|i| {
                        let mut sum: Option<i64> = None;
                        for j in i.saturating_sub(1)..=i {
                            if let Some(v) = rows[j].v {
                                sum = Some(sum.unwrap_or(0) + v);
                            }
                        }
                        vec![Some(rows[i].id.to_string()), sum.map(|x| x.to_string())]
                    })
                    .collect()
            };
            (
                "SELECT id, sum(v) OVER (ORDER BY id ROWS BETWEEN 1 PRECEDING AND CURRENT ROW) FROM a".to_string(),
                w(&a),
                w(&a_early),
                false,
            )
        }
        "ordered_agg" | "hash_agg_unordered" => {
            let agg = |rows: &[Row], closed_only: bool| -> Vec<Cells> {
                let mut g: BTreeMap<Option<i32>, (i64, Option<i64>)> = BTreeMap::new();
                for r in rows {
                    let e = g.entry(r.k).or_insert((0, None));
                    e.0 += 1;
                    if let Some(v) = r.v {
                        e.1 = Some(e.1.unwrap_or(0) + v);
                    }
                }
                let last = rows.last().map(|r| r.k);
                g.into_iter()
                    .filter(|(k, _)| !closed_only || Some(*k) != last)
                    .map(|(k, (n, s))| vec![k.map(|x| x.to_string()), Some(n.to_string()), s.map(|x| x.to_string())])
                    .collect()
            };
            // a group is determined once a larger key has been seen; required: groups closed within
            // the prefix minus its last batch, computed over the whole prefix (they cannot change)
            let closed_early: Vec<Option<i32>> = {
                let last = a_early.last().map(|r| r.k);
                let mut ks: Vec<Option<i32>> = a_early.iter().map(|r| r.k).filter(|k| Some(*k) != last).collect();
                ks.dedup();
                ks
            };
            let all = agg(&a, false);
            let required: Vec<Cells> = agg(&a, true).into_iter().filter(|row| closed_early.iter().any(|k| k.map(|x| x.to_string()) == row[0])).collect();
            ("SELECT k, count(*), sum(v) FROM a GROUP BY k".to_string(), all, required, false)
        }
        "shj" => {
            let j = |x: &[Row], y: &[Row]| -> Vec<Cells> {
                let mut out = vec![];
                for ra in x {
                    for rb in y {
                        if ra.k.is_some() && ra.k == rb.k {
                            out.push(vec![Some(ra.id.to_string()), Some(rb.id.to_string())]);
                        }
                    }
                }
                out
            };
            ("SELECT a.id, b.id FROM a JOIN b ON a.k = b.k".to_string(), j(&a, &b), j(&a_early, &b_early), false)
        }
        // a filter on the ascending key with a LIMIT: once n matching rows were seen the stream must end,
        // although no later row of the (continuing) input will ever match
        "filter_limit" => {
            let bound = (c.rem_euclid(8) + 1) as i32;
            let matching: Vec<&Row> = a.iter().filter(|r| r.k.is_some_and(|k| k < bound)).collect();
            let n = n.max(1);
            // with several partitions the matching rows are dealt to several FilterExec streams, each of
            // which may hold fewer than batch_size rows back for ever (see below): the LIMIT is only
            // certain to be reached when one stream sees all of them
            let single = case["knobs"]["datafusion.execution.target_partitions"].as_u64() == Some(1);
            let reached = matching.len() >= n && single;
            let early: Vec<&Row> = a_early.iter().filter(|r| r.k.is_some_and(|k| k < bound)).collect();
            (
                format!("SELECT id, k FROM a WHERE k < {bound} LIMIT {n}"),
                cells_of(&matching, &["id", "k"]),
                // (which n rows is not determined with several partitions; the count is checked below. When the
                // limit is not reached nothing is required: FilterExec coalesces its output and holds fewer
                // than batch_size matching rows back for as long as no further row matches, see DESIGN.md 7.1)
                { let _ = &early; vec![] },
                reached,
            )
        }
        // RIGHT JOIN with an empty (bounded) build side and a LIMIT: every probe row is emitted padded
        // with NULLs, and the stream must end after n rows
        "join_limit_empty_build" => {
            let n = n.max(1);
            let all: Vec<&Row> = a.iter().collect();
            (format!("SELECT a.id FROM e RIGHT JOIN a ON e.k = a.k LIMIT {n}"), cells_of(&all, &["id"]), vec![], a.len() >= n)
        }
        // ORDER BY (k, v) over an input ordered by k: a partial sort, which can emit a key's rows as soon
        // as a larger key arrives
        "partial_sort" => {
            let f = |rows: &[Row]| cells_of(&rows.iter().collect::<Vec<_>>(), &["id", "k", "v"]);
            ("SELECT id, k, v FROM a ORDER BY k NULLS FIRST, v".to_string(), f(&a), f(&a_early), false)
        }
        // merge of two inputs ordered by k: a row can be emitted once both inputs have passed its key
        "spm" => {
            let f = |x: &[Row], y: &[Row]| {
                let mut v = cells_of(&x.iter().collect::<Vec<_>>(), &["id", "k"]);
                v.extend(cells_of(&y.iter().collect::<Vec<_>>(), &["id", "k"]));
                v
            };
            ("SELECT id, k FROM a UNION ALL SELECT id, k FROM b ORDER BY k NULLS FIRST".to_string(), f(&a, &b), f(&a_early, &b_early), false)
        }
        // ORDER BY the input's own order with a LIMIT: the first n rows, then end-of-stream
        "topk_sorted" => {
            let n = n.min(a.len());
            // ties on k may be broken either way: any n rows whose keys are the n smallest
            let kth = a.get(n.saturating_sub(1)).map(|r| r.k);
            let allowed: Vec<&Row> = a.iter().filter(|r| n > 0 && Some(r.k) <= kth).collect();
            let strictly: Vec<&Row> = a.iter().filter(|r| n > 0 && Some(r.k) < kth).collect();
            (format!("SELECT id, k FROM a ORDER BY k NULLS FIRST LIMIT {n}"), cells_of(&allowed, &["id", "k"]), cells_of(&strictly, &["id", "k"]), a.len() >= n)
        }
        "window_lead" => {
            let w = |rows: &[Row], all: &[Row]| -> Vec<Cells> {
                (0..rows.len())
                    .map(|i| {
                        let lag = if i > 0 { all[i - 1].v } else { None };
                        // (the row after the last prefix row is a filler row, whose v is NULL)
                        let lead = all.get(i + 1).and_then(|r| r.v);
                        vec![Some(rows[i].id.to_string()), lag.map(|x| x.to_string()), lead.map(|x| x.to_string())]
                    })
                    .collect()
            };
            ("SELECT id, lag(v) OVER (ORDER BY id), lead(v) OVER (ORDER BY id) FROM a".to_string(), w(&a, &a), w(&a_early, &a), false)
        }
        "distinct_ordered" => {
            let d = |rows: &[Row]| -> Vec<Cells> {
                let mut ks: Vec<Option<i32>> = rows.iter().map(|r| r.k).collect();
                ks.dedup();
                ks.into_iter().map(|k| vec![k.map(|x| x.to_string())]).collect()
            };
            // a key is determined once a larger one has arrived
            let mut req = d(&a_early);
            req.pop();
            ("SELECT DISTINCT k FROM a".to_string(), d(&a), req, false)
        }
        // running sum against the input order: every value depends on all later rows, so it can only
        // be answered at end of input and must be rejected
        "window_reversed" => (
            "SELECT id, sum(v) OVER (ORDER BY id DESC ROWS BETWEEN UNBOUNDED PRECEDING AND CURRENT ROW) FROM a".to_string(),
            vec![],
            vec![],
            false,
        ),
        _ => ("SELECT id FROM a ORDER BY v".to_string(), vec![], vec![], false),
    };

    let Some(sess) = sqlsim::build_session(&env, &case["knobs"], &tables) else { return Outcome::Invalid };
    let df = match sess.ctx.sql(&sql).await {
        Ok(d) => d,
        Err(e) => return violation("template-error", format!("`{sql}`: {e}")),
    };
    let plan = match df.create_physical_plan().await {
        Ok(p) => p,
        Err(e) => {
            // rejected at planning time: allowed by the property's last sentence
            sim::probe("probe.rejected_at_planning");
            sim::probe(&format!("probe.rejected.{shape}"));
            let _ = e;
            return Outcome::Pass;
        }
    };
    if shape == "window_reversed" {
        return violation("blocking-plan-accepted", format!("`{sql}` over an input ordered by id ASC was accepted although every frame reaches to the end of the unbounded input"));
    }
    if shape == "sort_rejected" {
        return violation("blocking-plan-accepted", format!("`{sql}` over an unbounded input was accepted although it can only answer at end of input"));
    }
    if shape == "hash_agg_unordered" {
        // an unordered GROUP BY over an unbounded input can only answer at the end: must be rejected
        return violation("blocking-plan-accepted", format!("`{sql}` over an unbounded, unordered input was accepted"));
    }
    sim::probe("probe.accepted");
    sim::probe(&format!("probe.accepted.{shape}"));
    sqlsim::probe_plan(&plan);
    if std::env::var_os("VERIF_DEBUG_PLAN").is_some() {
        eprintln!("{}", datafusion_physical_plan::displayable(plan.as_ref()).indent(true));
    }
    let mut stream = match datafusion_physical_plan::execute_stream(plan, sess.ctx.task_ctx()) {
        Ok(s) => s,
        Err(e) => return violation("unexpected-error", format!("`{sql}`: {e}")),
    };
    // read until both inputs have produced a few hundred filler batches beyond their prefix
    let prefix_batches = |t: &sqlsim::TableSpec| t.scripts.iter().flatten().filter(|s| matches!(s, Step::Batch(_))).count() as u64;
    let need_a = prefix_batches(a_spec) + 600;
    let need_b = prefix_batches(b_spec) + 600;
    let uses_b = matches!(shape.as_str(), "union_all" | "shj" | "spm");
    let st_a = sess.tables.iter().find(|t| t.0 == "a").map(|t| std::sync::Arc::clone(&t.1)).unwrap();
    let st_b = sess.tables.iter().find(|t| t.0 == "b").map(|t| std::sync::Arc::clone(&t.1)).unwrap();
    let enough = || {
        use std::sync::atomic::Ordering::Relaxed;
        let (na, nb) = (st_a.batches.load(Relaxed), st_b.batches.load(Relaxed));
        (na >= need_a && (!uses_b || nb >= need_b)) || na + nb >= need_a + need_b + 4000
    };
    let mut got: Vec<Cells> = vec![];
    let mut ended = false;
    loop {
        if enough() {
            break;
        }
        tokio::select! {
            biased;
            b = stream.next() => match b {
                Some(Ok(batch)) => match sqlsim::batches_to_cells(&[batch]) {
                    Ok(c) => got.extend(c),
                    Err(e) => return violation("unexpected-error", format!("{e}")),
                },
                Some(Err(e)) => return violation("unexpected-error", format!("`{sql}` failed over an unbounded input: {}", sqlsim::error_text(&e))),
                None => { ended = true; break }
            },
            // the clock is paused and only jumps when the runtime is idle, which never happens over an
            // endless input: let virtual time pass with the consumer's turns instead
            _ = tokio::time::advance(std::time::Duration::from_millis(1)) => {}
        }
    }
    // The inputs have continued long enough for every operator to see what it needs (larger keys, rows on
    // every partition). How far the *pipeline* got in the meantime depends on the schedule: a task the
    // scheduler favours least gets a turn only every few hundred decisions while the input tasks are always
    // runnable. So the inputs now pause (they stay pending, as a quiet stream would) and the query is read
    // until the whole system is idle: everything that was in flight arrives, at whatever pace.
    if !ended {
        st_a.pause_fillers.store(true, std::sync::atomic::Ordering::Relaxed);
        st_b.pause_fillers.store(true, std::sync::atomic::Ordering::Relaxed);
        loop {
            // (the paused clock only jumps to this timer when nothing at all is runnable)
            match tokio::time::timeout(std::time::Duration::from_secs(3600), stream.next()).await {
                Err(_) => break,
                Ok(None) => {
                    ended = true;
                    break;
                }
                Ok(Some(Ok(batch))) => got.extend(sqlsim::batches_to_cells(&[batch]).unwrap_or_default()),
                Ok(Some(Err(e))) => return violation("unexpected-error", format!("`{sql}` failed over an unbounded input: {}", sqlsim::error_text(&e))),
            }
        }
    }
    drop(stream);
    if std::env::var_os("VERIF_DEBUG_PLAN").is_some() {
        eprintln!("delivered {} rows, first: {:?}; a batches {} b batches {}", got.len(), got.iter().take(6).collect::<Vec<_>>(), st_a.batches.load(std::sync::atomic::Ordering::Relaxed), st_b.batches.load(std::sync::atomic::Ordering::Relaxed));
    }
    // rows that stem from filler input are outside the oracle
    let filler_cell = |c: &Option<String>, lo: i64| c.as_ref().and_then(|x| x.parse::<i64>().ok()).is_some_and(|x| x >= lo);
    got.retain(|r| match shape.as_str() {
        "union_all" | "spm" | "topk_sorted" => !filler_cell(&r[1], crate::data::FILLER_KEY_BASE),
        "window" | "limit" | "filter" | "partial_sort" | "window_lead" | "filter_limit" | "join_limit_empty_build" => !filler_cell(&r[0], crate::data::FILLER_ID_BASE),
        "ordered_agg" | "distinct_ordered" => !filler_cell(&r[0], crate::data::FILLER_KEY_BASE),
        "shj" => !(filler_cell(&r[0], crate::data::FILLER_ID_BASE) || filler_cell(&r[1], crate::data::FILLER_ID_BASE)),
        _ => true,
    });
    // ordered shapes: what was delivered must be in the requested order
    if matches!(shape.as_str(), "partial_sort" | "spm" | "topk_sorted") {
        let key = |r: &Cells| -> (i64, i64, bool) {
            let k = r[1].as_ref().and_then(|x| x.parse::<i64>().ok()).unwrap_or(i64::MAX);
            if shape == "partial_sort" {
                // v ASC NULLS LAST
                match r[2].as_ref().and_then(|x| x.parse::<i64>().ok()) {
                    Some(v) => (k, v, false),
                    None => (k, 0, true),
                }
            } else {
                (k, 0, false)
            }
        };
        for w in got.windows(2) {
            let (a1, b1) = (key(&w[0]), key(&w[1]));
            let le = (a1.0, a1.2, a1.1) <= (b1.0, b1.2, b1.1);
            if !le {
                return violation("order-lost", format!("`{sql}` delivered {:?} before {:?}", w[0], w[1]));
            }
        }
    }
    // safety: everything delivered is correct for the prefix
    let mut pool = allowed.clone();
    for r in &got {
        match pool.iter().position(|x| x == r) {
            Some(p) => {
                pool.swap_remove(p);
            }
            None => return violation("wrong-row", format!("`{sql}` delivered {r:?}, which the input prefix does not determine (or delivered it twice)")),
        }
    }
    // liveness: everything determined by the prefix minus one batch of slack has been delivered
    let mut have = got.clone();
    for r in &required {
        match have.iter().position(|x| x == r) {
            Some(p) => {
                have.swap_remove(p);
            }
            None => {
                return violation(
                    "output-withheld",
                    format!("`{sql}`: row {r:?} is determined by the input delivered so far (even without the last batch of each input) but was not produced although both inputs went on for 600 more batches"),
                )
            }
        }
    }
    if must_end && ended && matches!(shape.as_str(), "filter_limit" | "join_limit_empty_build") && got.len() != n.max(1) {
        return violation("wrong-count", format!("`{sql}` ended with {} rows of the prefix, LIMIT {} was reachable", got.len(), n.max(1)));
    }
    if must_end && !ended {
        return violation("limit-not-terminating", format!("`{sql}`: the LIMIT was reached but the stream did not end while the input continued"));
    }
    if ended && !must_end && !matches!(shape.as_str(), "limit" | "topk_sorted" | "filter_limit" | "join_limit_empty_build") {
        return violation("premature-end", format!("`{sql}` ended although its unbounded input has not"));
    }
    sim::probe_n("probe.rows_delivered", got.len() as u64);
    sim::probe_n("probe.rows_required", required.len() as u64);
    let sqlsim::SimSession { ctx, env: cx, tables: stats } = sess;
    drop(ctx);
    drop(st_a);
    drop(st_b);
    tokio::time::sleep(std::time::Duration::from_secs(3600)).await;
    if let Some(v) = cx.quiescence_violation_stats(&stats) {
        return v;
    }
    Outcome::Pass
}

pub fn check() -> Check {
    Check {
        property: "C50",
        level: "exploration",
        scenarios: vec![Box::new(Unbounded)],
        cases_quick: 8_000,
        cases_thorough: 300_000,
        rule: "runs: one query shape (filter/project, UNION ALL, LIMIT n, bounded window frame over the input order, GROUP BY on the ordered key, inner join of two ordered unbounded inputs (symmetric hash join), ORDER BY (k, v) over an input ordered by k (partial sort), ORDER BY k over a UNION ALL of two ordered inputs (sort-preserving merge), ORDER BY k LIMIT n over the ordered input, lag/lead over the input order, DISTINCT on the ordered key, plus shapes that must be rejected: ORDER BY on an unordered column and GROUP BY on an unordered key) over StreamingTable-like unbounded inputs declared with their ordering, each delivering 1-6 batches with Pending/virtual delays and then stalling; planned by the real optimizer under 1-4 target partitions; the consumer reads until a virtual hour passes without progress. Safety: every delivered row is determined by the prefix; liveness: every row determined by the prefix minus the last batch of each input has been delivered; LIMIT ends the stream once n rows were seen. distinct = distinct traces",
        assumptions: vec!["one batch of slack per input is granted to operators that buffer (coalescing, frame look-ahead)", "a group of the ordered aggregation counts as determined once a larger key has arrived"],
        components: json!({
            "real": ["physical planner + SanityCheckPlan / pipeline checks", "SymmetricHashJoinExec", "BoundedWindowAggExec", "ordered aggregation streams", "UnionExec, limits, filters", "StreamingTable-style unbounded scans via TableProvider"],
            "stub": ["unbounded inputs: scripted SimSourceExec partitions that stall after a prefix"],
        }),
    }
}
