//! C19, second clause — a running query keeps yielding to the runtime, so that a cancellation
//! takes effect even over an endless input. Formulated in steps (a paused clock never advances
//! while work is runnable): an always-ready endless input may only be pulled a bounded number of
//! times inside one task poll, and once the consumer drops the query its background work must stop
//! (the input is finite only as a safety net: a cap far beyond any legitimate run flags the run).

use crate::envutil::EnvSpec;
use crate::runner::{Outcome, RunFuture, Scenario, violation};
use crate::sim;
use crate::source::{SimSourceExec, SourceStats};
use crate::sqlsim::{self};
use datafusion_common_runtime::SpawnedTask;
use datafusion_execution::SendableRecordBatchStream;
use datafusion_physical_expr::Partitioning;
use datafusion_physical_expr::expressions::col;
use datafusion_physical_plan::ExecutionPlan;
use datafusion_physical_plan::repartition::RepartitionExec;
use dst_common::Tier;
use dst_common::rng::Rng;
use futures::StreamExt;
use serde_json::{Value, json};
use std::sync::Arc;
use std::sync::atomic::Ordering;

fn endless_table(rng: &mut Rng, parts: u64, few_keys: bool) -> Value {
    let mut out = vec![];
    for _ in 0..parts {
        let mut steps = vec![];
        if rng.chance(1, 2) {
            steps.push(json!({"b": [[rng.below(3), "a1", rng.below(50)]]}));
        }
        if rng.chance(1, 3) {
            steps.push(json!("p"));
        }
        let n = rng.range(1, 4);
        let rows: Vec<Value> = (0..n).map(|_| json!([if few_keys { 1 } else { rng.below(6) }, "b2", rng.below(100) as i64 - 20])).collect();
        steps.push(json!({"endless": rows}));
        out.push(json!(steps));
    }
    json!(out)
}

/// Reads `stream` until `stop()` says so (checked at every turn), then drops it.
async fn read_until(mut stream: SendableRecordBatchStream, stop: impl Fn() -> bool) -> (u64, bool) {
    let mut got = 0u64;
    let mut failed = false;
    loop {
        if stop() {
            break;
        }
        tokio::select! {
            biased;
            b = stream.next() => match b {
                Some(Ok(_)) => got += 1,
                Some(Err(_)) => { failed = true; break }
                None => break,
            },
            // the clock is paused and only jumps when the runtime is idle, which never happens over an
            // endless input: let virtual time pass with the consumer's turns instead
            _ = tokio::time::advance(std::time::Duration::from_millis(1)) => {}
        }
    }
    drop(stream);
    (got, failed)
}

pub struct YieldRepartition;

impl Scenario for YieldRepartition {
    fn name(&self) -> &'static str {
        "c19-yield-repartition"
    }
    fn generate(&self, rng: &mut Rng, _tier: Tier) -> Value {
        let few = rng.chance(2, 3);
        let np = rng.range(1, 3);
        json!({
            "table": endless_table(rng, np, few),
            "mode": *rng.pick(&["hash", "hash", "rr"]),
            "outputs": rng.range(2, 8),
            "stop_after": *rng.pick(&[50u64, 300, 1500]),
            "stagger": rng.chance(1, 2),
            "env": EnvSpec::generate(rng, false),
        })
    }
    fn run(&self, case: Value) -> RunFuture {
        Box::pin(async move {
            let Some(table) = crate::data::parse_table(&case["table"]) else { return Outcome::Invalid };
            let Some(env) = EnvSpec::parse(&case["env"]) else { return Outcome::Invalid };
            let Some(outputs) = case["outputs"].as_u64().filter(|n| (1..=16).contains(n)) else { return Outcome::Invalid };
            let stop_after = case["stop_after"].as_u64().unwrap_or(300).min(20_000);
            let stagger = case["stagger"].as_bool().unwrap_or(false);
            let ctx = env.build();
            let schema = crate::data::table_schema();
            let source = Arc::new(SimSourceExec::with_ordering("endless", table, None, true));
            let stats: Arc<SourceStats> = Arc::clone(&source.stats);
            let partitioning = if case["mode"].as_str() == Some("rr") {
                Partitioning::RoundRobinBatch(outputs as usize)
            } else {
                Partitioning::Hash(vec![col("k", &schema).unwrap()], outputs as usize)
            };
            let plan: Arc<dyn ExecutionPlan> = match RepartitionExec::try_new(source.clone(), partitioning) {
                Ok(e) => Arc::new(e),
                Err(e) => return violation("plan-error", format!("{e}")),
            };
            let mut hs = vec![];
            for p in 0..outputs as usize {
                let plan = Arc::clone(&plan);
                let task = Arc::clone(&ctx.task);
                let st = Arc::clone(&stats);
                // staggered: output p gives up earlier than output p+1 (mixes dead and live outputs)
                let my_stop = if stagger { stop_after * (p as u64 + 1) / outputs } else { stop_after };
                hs.push(SpawnedTask::spawn(async move {
                    let s = plan.execute(p, task)?;
                    Ok::<_, datafusion_common::DataFusionError>(read_until(s, move || st.batches.load(Ordering::Relaxed) >= my_stop).await)
                }));
            }
            for h in hs {
                match h.join().await {
                    Ok(Ok(_)) => {}
                    Ok(Err(e)) => return violation("unexpected-error", format!("{e}")),
                    Err(e) => return violation("consumer-failed", format!("{e}")),
                }
            }
            drop(plan);
            sim::probe("probe.endless_query_dropped");
            tokio::time::sleep(std::time::Duration::from_secs(3600)).await;
            if let Some(v) = ctx.quiescence_violation(&[&source]) {
                return v;
            }
            Outcome::Pass
        })
    }
}

pub struct YieldSql;

const ENDLESS_QUERIES: &[&str] = &[
    "SELECT count(*) FROM a",
    "SELECT id, k FROM a WHERE v < -100000",
    "SELECT k, sum(v), count(*) FROM a GROUP BY k",
    "SELECT id FROM a ORDER BY v LIMIT 3",
    "SELECT id, k, v FROM a",
    "SELECT a.id, b.id FROM a JOIN b ON a.k = b.k",
    "SELECT a.id FROM a WHERE a.k IN (SELECT k FROM b)",
    "SELECT k, count(DISTINCT v) FROM a GROUP BY k",
    "SELECT id, row_number() OVER (PARTITION BY k ORDER BY id) FROM a",
    "SELECT id, k FROM a UNION ALL SELECT id, k FROM b",
    "SELECT DISTINCT k FROM a",
];

impl Scenario for YieldSql {
    fn name(&self) -> &'static str {
        "c19-yield-sql"
    }
    fn generate(&self, rng: &mut Rng, tier: Tier) -> Value {
        let b = crate::data::TableGen { parts: (1, 2), batches: (0, 3), rows: (0, 6), ..Default::default() };
        let _ = tier;
        let np = rng.range(1, 3);
        json!({
            "tables": {
                "a": {"parts": endless_table(rng, np, false), "sorted": false},
                "b": {"parts": b.generate(rng), "sorted": false},
            },
            "sql": rng.below(ENDLESS_QUERIES.len() as u64),
            "knobs": sqlsim::generate_cfg(rng),
            "stop_after": *rng.pick(&[50u64, 300, 1500]),
            "env": EnvSpec::generate(rng, false),
        })
    }
    fn run(&self, case: Value) -> RunFuture {
        Box::pin(async move {
            let Some(tables) = sqlsim::parse_tables(&case["tables"]) else { return Outcome::Invalid };
            let Some(env) = EnvSpec::parse(&case["env"]) else { return Outcome::Invalid };
            let sql = ENDLESS_QUERIES[(case["sql"].as_u64().unwrap_or(0) as usize) % ENDLESS_QUERIES.len()];
            let stop_after = case["stop_after"].as_u64().unwrap_or(300).min(20_000);
            let Some(sess) = sqlsim::build_session(&env, &case["knobs"], &tables) else { return Outcome::Invalid };
            let a_stats = sess.tables.iter().find(|t| t.0 == "a").map(|t| Arc::clone(&t.1)).unwrap();
            let df = match sess.ctx.sql(sql).await {
                Ok(df) => df,
                Err(e) => return violation("template-error", format!("`{sql}`: {e}")),
            };
            let plan = match df.create_physical_plan().await {
                Ok(p) => p,
                Err(e) => return violation("template-error", format!("`{sql}`: {e}")),
            };
            if sqlsim::unprotected_noncooperative_leaf(&plan) {
                // known finding: EnsureCooperative left a non-cooperative leaf without cover
                sim::set_tag("noncooperative-leaf-below-cooperative-exchange");
                sim::probe("probe.plan_with_unprotected_leaf");
            }
            if std::env::var_os("VERIF_DEBUG_PLAN").is_some() {
                eprintln!("{}", datafusion_physical_plan::displayable(plan.as_ref()).indent(true));
            }
            let stream = match datafusion_physical_plan::execute_stream(plan, sess.ctx.task_ctx()) {
                Ok(s) => s,
                Err(e) => return violation("unexpected-error", format!("`{sql}`: {e}")),
            };
            let st = Arc::clone(&a_stats);
            let (got, failed) = read_until(stream, move || st.batches.load(Ordering::Relaxed) >= stop_after).await;
            if failed {
                return violation("unexpected-error", format!("`{sql}` failed over an endless input"));
            }
            sim::probe_n("probe.batches_delivered_before_drop", got);
            sim::probe("probe.endless_query_dropped");
            let sqlsim::SimSession { ctx, env: cx, tables: stats } = sess;
            drop(ctx);
            tokio::time::sleep(std::time::Duration::from_secs(3600)).await;
            if let Some(v) = cx.quiescence_violation_stats(&stats) {
                return v;
            }
            Outcome::Pass
        })
    }
}


// ---------------------------------------------------------------------------------------
// Operator-level plans over an endless non-cooperative leaf, protected only by the EnsureCooperative
// rule (the SQL planner never builds some of these shapes, a user of the physical-plan API can:
// a CoalescePartitionsExec over one partition, limits, unions and merges directly over a source).

pub struct YieldPlan;

fn gen_shape(rng: &mut Rng, depth: u64) -> Value {
    if depth == 0 || rng.chance(1, 4) {
        // a quarter of the leaves are cooperative by themselves (like DataFusion's own sources)
        return json!({"op": "src", "parts": rng.range(1, 3), "coop": rng.chance(1, 4)});
    }
    match rng.below(12) {
        0 | 1 => json!({"op": "coalesce", "in": gen_shape(rng, depth - 1)}),
        2 => json!({"op": "filter", "pass": rng.chance(1, 2), "in": gen_shape(rng, depth - 1)}),
        3 => json!({"op": "proj", "in": gen_shape(rng, depth - 1)}),
        4 => json!({"op": "rr", "n": rng.range(1, 4), "in": gen_shape(rng, depth - 1)}),
        5 => json!({"op": "hash", "n": rng.range(1, 4), "in": gen_shape(rng, depth - 1)}),
        6 => json!({"op": "limit", "in": gen_shape(rng, depth - 1)}),
        7 => json!({"op": "union", "l": gen_shape(rng, depth - 1), "r": gen_shape(rng, depth - 1)}),
        10 | 11 => json!({"op": "union", "l": gen_shape(rng, depth - 1), "r": gen_shape(rng, depth - 1)}),
        8 => json!({"op": "topk", "in": gen_shape(rng, depth - 1)}),
        _ => json!({"op": "spm", "in": gen_shape(rng, depth - 1)}),
    }
}

fn build_shape(v: &Value, table: &[Vec<crate::data::Step>], sources: &mut Vec<Arc<SimSourceExec>>) -> Option<Arc<dyn ExecutionPlan>> {
    use datafusion_physical_expr::expressions::{BinaryExpr, lit};
    use datafusion_physical_expr::{LexOrdering, PhysicalSortExpr};
    use datafusion_physical_plan::coalesce_partitions::CoalescePartitionsExec;
    use datafusion_physical_plan::filter::FilterExec;
    use datafusion_physical_plan::limit::GlobalLimitExec;
    use datafusion_physical_plan::projection::ProjectionExec;
    use datafusion_physical_plan::sorts::sort::SortExec;
    use datafusion_physical_plan::sorts::sort_preserving_merge::SortPreservingMergeExec;
    use datafusion_physical_plan::union::UnionExec;
    let schema = crate::data::table_schema();
    let input = |sources: &mut Vec<Arc<SimSourceExec>>| build_shape(v.get("in")?, table, sources);
    let order = || LexOrdering::new(vec![PhysicalSortExpr::new(col("v", &crate::data::table_schema()).unwrap(), Default::default())]);
    Some(match v.get("op")?.as_str()? {
        "src" => {
            let n = (v.get("parts")?.as_u64()? as usize).clamp(1, 4);
            // n partitions: the table's scripts repeated/cut to n
            let scripts: Vec<Vec<crate::data::Step>> = (0..n).map(|i| table[i % table.len()].clone()).collect();
            let coop = v.get("coop").and_then(|x| x.as_bool()).unwrap_or(false);
            let src = Arc::new(SimSourceExec::with_ordering("endless", scripts, None, true).with_cooperative(coop));
            sources.push(Arc::clone(&src));
            src
        }
        "coalesce" => Arc::new(CoalescePartitionsExec::new(input(sources)?)),
        "filter" => {
            let bound = if v.get("pass")?.as_bool()? { 100_000i64 } else { -100_000 };
            let pred = Arc::new(BinaryExpr::new(col("v", &schema).ok()?, datafusion_expr::Operator::Lt, lit(bound)));
            Arc::new(FilterExec::try_new(pred, input(sources)?).ok()?)
        }
        "proj" => {
            let exprs: Vec<(Arc<dyn datafusion_physical_expr::PhysicalExpr>, String)> =
                ["id", "k", "s", "v"].iter().map(|c| (col(c, &schema).unwrap(), c.to_string())).collect();
            Arc::new(ProjectionExec::try_new(exprs, input(sources)?).ok()?)
        }
        "rr" => Arc::new(RepartitionExec::try_new(input(sources)?, Partitioning::RoundRobinBatch((v.get("n")?.as_u64()? as usize).clamp(1, 8))).ok()?),
        "hash" => Arc::new(
            RepartitionExec::try_new(input(sources)?, Partitioning::Hash(vec![col("k", &schema).ok()?], (v.get("n")?.as_u64()? as usize).clamp(1, 8))).ok()?,
        ),
        "limit" => {
            // a global limit needs one input partition
            let i = input(sources)?;
            let i: Arc<dyn ExecutionPlan> = if i.properties().partitioning.partition_count() > 1 { Arc::new(CoalescePartitionsExec::new(i)) } else { i };
            Arc::new(GlobalLimitExec::new(i, 0, Some(1 << 40)))
        }
        "union" => UnionExec::try_new(vec![build_shape(v.get("l")?, table, sources)?, build_shape(v.get("r")?, table, sources)?]).ok()?,
        "topk" => Arc::new(SortExec::new(order()?, input(sources)?).with_fetch(Some(3)).with_preserve_partitioning(true)),
        "spm" => {
            // per-partition top-k below a merge: nothing is emitted before the (endless) inputs end
            let sorted = Arc::new(SortExec::new(order()?, input(sources)?).with_fetch(Some(3)).with_preserve_partitioning(true));
            Arc::new(SortPreservingMergeExec::new(order()?, sorted))
        }
        _ => return None,
    })
}

impl Scenario for YieldPlan {
    fn name(&self) -> &'static str {
        "c19-yield-plan"
    }
    fn generate(&self, rng: &mut Rng, _tier: Tier) -> Value {
        json!({
            "table": endless_table(rng, 3, false),
            "shape": gen_shape(rng, 3),
            "starve_top": rng.chance(1, 2),
            "stop_after": *rng.pick(&[50u64, 300, 1500]),
            "env": EnvSpec::generate(rng, false),
        })
    }
    fn run(&self, case: Value) -> RunFuture {
        Box::pin(async move {
            use datafusion::physical_optimizer::PhysicalOptimizerRule;
            let Some(table) = crate::data::parse_table(&case["table"]) else { return Outcome::Invalid };
            let Some(env) = EnvSpec::parse(&case["env"]) else { return Outcome::Invalid };
            let stop_after = case["stop_after"].as_u64().unwrap_or(300).min(20_000);
            let ctx = env.build();
            let mut sources = vec![];
            let Some(mut plan) = build_shape(&case["shape"], &table, &mut sources) else { return Outcome::Invalid };
            if sources.is_empty() || sources.len() > 8 {
                return Outcome::Invalid;
            }
            if case["starve_top"].as_bool().unwrap_or(false) {
                // a consumer that never sees a batch: nothing but the operators' own yielding gives the
                // runtime a turn
                let schema = plan.schema();
                let Ok(v) = col("v", &schema) else { return Outcome::Invalid };
                let pred = Arc::new(datafusion_physical_expr::expressions::BinaryExpr::new(v, datafusion_expr::Operator::Lt, datafusion_physical_expr::expressions::lit(-100_000i64)));
                plan = match datafusion_physical_plan::filter::FilterExec::try_new(pred, plan) {
                    Ok(f) => Arc::new(f),
                    Err(_) => return Outcome::Invalid,
                };
            }
            // the only protection: the EnsureCooperative rule, as the default optimizer applies it last
            let plan = match datafusion::physical_optimizer::ensure_coop::EnsureCooperative::new().optimize(plan, ctx.task.session_config().options()) {
                Ok(p) => p,
                Err(e) => return violation("plan-error", format!("EnsureCooperative failed: {e}")),
            };
            if sqlsim::unprotected_noncooperative_leaf(&plan) {
                sim::set_tag("noncooperative-leaf-below-cooperative-exchange");
                sim::probe("probe.plan_with_unprotected_leaf");
            }
            if std::env::var_os("VERIF_DEBUG_PLAN").is_some() {
                eprintln!("{}", datafusion_physical_plan::displayable(plan.as_ref()).indent(true));
            }
            let n_out = plan.properties().partitioning.partition_count();
            let stats: Vec<Arc<SourceStats>> = sources.iter().map(|s| Arc::clone(&s.stats)).collect();
            let mut hs = vec![];
            for p in 0..n_out {
                let plan = Arc::clone(&plan);
                let task = Arc::clone(&ctx.task);
                let st = stats.clone();
                hs.push(SpawnedTask::spawn(async move {
                    let s = plan.execute(p, task)?;
                    Ok::<_, datafusion_common::DataFusionError>(
                        read_until(s, move || st.iter().map(|x| x.batches.load(Ordering::Relaxed)).sum::<u64>() >= stop_after).await,
                    )
                }));
            }
            for h in hs {
                match h.join().await {
                    Ok(Ok(_)) => {}
                    Ok(Err(e)) => return violation("unexpected-error", format!("{e}")),
                    Err(e) => return violation("consumer-failed", format!("{e}")),
                }
            }
            drop(plan);
            sim::probe("probe.endless_query_dropped");
            tokio::time::sleep(std::time::Duration::from_secs(3600)).await;
            let refs: Vec<&Arc<SimSourceExec>> = sources.iter().collect();
            if let Some(v) = ctx.quiescence_violation(&refs) {
                return v;
            }
            Outcome::Pass
        })
    }
}
