//! The one PRNG of the harness: splitmix64. Every generated workload, fault position and
//! schedule seed derives from VERIF_SEED through it. Never used in logging paths.

#[derive(Clone, Debug)]
pub struct Rng(pub u64);

pub fn splitmix(base: u64, i: u64) -> u64 {
    let mut z = base
        .wrapping_add(0x9E37_79B9_7F4A_7C15u64.wrapping_mul(i.wrapping_add(1)));
    z = (z ^ (z >> 30)).wrapping_mul(0xBF58_476D_1CE4_E5B9);
    z = (z ^ (z >> 27)).wrapping_mul(0x94D0_49BB_1331_11EB);
    z ^ (z >> 31)
}

impl Rng {
    pub fn new(seed: u64) -> Self {
        Rng(seed ^ 0x5DEECE66D)
    }
    pub fn next(&mut self) -> u64 {
        self.0 = self.0.wrapping_add(0x9E37_79B9_7F4A_7C15);
        let mut z = self.0;
        z = (z ^ (z >> 30)).wrapping_mul(0xBF58_476D_1CE4_E5B9);
        z = (z ^ (z >> 27)).wrapping_mul(0x94D0_49BB_1331_11EB);
        z ^ (z >> 31)
    }
    /// uniform in 0..n (n > 0)
    pub fn below(&mut self, n: u64) -> u64 {
        self.next() % n.max(1)
    }
    /// uniform in lo..=hi
    pub fn range(&mut self, lo: u64, hi: u64) -> u64 {
        lo + self.below(hi - lo + 1)
    }
    pub fn chance(&mut self, num: u64, den: u64) -> bool {
        self.below(den) < num
    }
    pub fn pick<'a, T>(&mut self, xs: &'a [T]) -> &'a T {
        &xs[self.below(xs.len() as u64) as usize]
    }
}

/// FNV-1a, used for trace / schedule hashes (stable across processes, unlike std's SipHash keys).
pub fn fnv1a(h: u64, bytes: &[u8]) -> u64 {
    let mut h = if h == 0 { 0xcbf29ce484222325 } else { h };
    for b in bytes {
        h ^= *b as u64;
        h = h.wrapping_mul(0x100000001b3);
    }
    h
}
