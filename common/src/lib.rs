//! Shared, simulator-independent parts of the deterministic-simulation harness.
pub mod rng;

use serde_json::{Map, Value, json};
use std::collections::BTreeMap;
use std::io::Write;
use std::path::{Path, PathBuf};

pub const DEFAULT_SEED: u64 = 20260921;

#[derive(Clone, Copy, Debug, PartialEq, Eq)]
pub enum Tier {
    Quick,
    Thorough,
}
impl Tier {
    pub fn parse(s: &str) -> Option<Tier> {
        match s {
            "quick" => Some(Tier::Quick),
            "thorough" => Some(Tier::Thorough),
            _ => None,
        }
    }
    pub fn as_str(&self) -> &'static str {
        match self {
            Tier::Quick => "quick",
            Tier::Thorough => "thorough",
        }
    }
}

pub fn verif_root() -> PathBuf {
    if let Ok(p) = std::env::var("VERIF_ROOT") {
        return PathBuf::from(p);
    }
    // binaries live in <root>/target/<ws>/debug/
    let exe = std::env::current_exe().expect("current_exe");
    let mut p = exe.as_path();
    while let Some(parent) = p.parent() {
        if parent.join("properties.jsonl").exists() {
            return parent.to_path_buf();
        }
        p = parent;
    }
    PathBuf::from("/verif")
}

pub fn seed_from_env() -> u64 {
    match std::env::var("VERIF_SEED") {
        Ok(s) => s.trim().parse::<u64>().unwrap_or_else(|_| {
            // accept negative / large numbers by hashing the text
            rng::fnv1a(0, s.as_bytes())
        }),
        Err(_) => DEFAULT_SEED,
    }
}

// ------------------------------------------------------------------------------------------
// Counters

/// Named counters (probes, fault firings, ...) that merge by addition.
#[derive(Clone, Debug, Default)]
pub struct Counters(pub BTreeMap<String, u64>);
impl Counters {
    pub fn add(&mut self, k: &str, n: u64) {
        *self.0.entry(k.to_string()).or_insert(0) += n;
    }
    pub fn max(&mut self, k: &str, n: u64) {
        let e = self.0.entry(k.to_string()).or_insert(0);
        if n > *e {
            *e = n;
        }
    }
    pub fn get(&self, k: &str) -> u64 {
        self.0.get(k).copied().unwrap_or(0)
    }
    pub fn merge(&mut self, o: &Counters) {
        for (k, v) in &o.0 {
            if k.starts_with("max.") {
                self.max(k, *v);
            } else {
                self.add(k, *v);
            }
        }
    }
    pub fn to_json(&self) -> Value {
        let mut m = Map::new();
        for (k, v) in &self.0 {
            m.insert(k.clone(), json!(v));
        }
        Value::Object(m)
    }
    pub fn from_json(v: &Value) -> Counters {
        let mut c = Counters::default();
        if let Some(m) = v.as_object() {
            for (k, v) in m {
                c.0.insert(k.clone(), v.as_u64().unwrap_or(0));
            }
        }
        c
    }
    pub fn with_prefix(&self, p: &str) -> Value {
        let mut m = Map::new();
        for (k, v) in &self.0 {
            if let Some(rest) = k.strip_prefix(p) {
                m.insert(rest.to_string(), json!(v));
            }
        }
        Value::Object(m)
    }
}

// ------------------------------------------------------------------------------------------
// Known findings

#[derive(Clone, Debug)]
pub struct Finding {
    pub property: String,
    pub signature: String,
    pub text: String,
}

/// Parses `/verif/known-findings.txt`. Lines:
///   `finding: property=<id> signature=<sig> <what fails>`   (suppresses exactly that signature)
///   `fixed: property=<id> <commit> <what failed>`           (suppresses nothing)
pub fn load_findings(root: &Path) -> Vec<Finding> {
    let mut out = vec![];
    if std::env::var_os("VERIF_IGNORE_KNOWN").is_some() {
        // used to regenerate the replay files that document the known findings
        return out;
    }
    let Ok(s) = std::fs::read_to_string(root.join("known-findings.txt")) else {
        return out;
    };
    for line in s.lines() {
        let line = line.trim();
        if let Some(rest) = line.strip_prefix("finding:") {
            let mut property = String::new();
            let mut signature = String::new();
            let mut text = vec![];
            for tok in rest.split_whitespace() {
                if let Some(p) = tok.strip_prefix("property=") {
                    property = p.to_string();
                } else if let Some(p) = tok.strip_prefix("signature=") {
                    signature = p.to_string();
                } else {
                    text.push(tok);
                }
            }
            if !property.is_empty() && !signature.is_empty() {
                out.push(Finding { property, signature, text: text.join(" ") });
            }
        }
    }
    out
}

// ------------------------------------------------------------------------------------------
// Generic delta-debugging over a JSON case

#[derive(Clone, Debug)]
enum Step {
    Key(String),
    Idx(usize),
}

fn walk(v: &Value, path: &mut Vec<Step>, out: &mut Vec<Vec<Step>>) {
    match v {
        Value::Array(a) => {
            out.push(path.clone());
            for (i, x) in a.iter().enumerate() {
                path.push(Step::Idx(i));
                walk(x, path, out);
                path.pop();
            }
        }
        Value::Object(m) => {
            for (k, x) in m {
                path.push(Step::Key(k.clone()));
                walk(x, path, out);
                path.pop();
            }
        }
        Value::Number(_) | Value::Bool(_) => out.push(path.clone()),
        _ => {}
    }
}

fn get_mut<'a>(v: &'a mut Value, path: &[Step]) -> Option<&'a mut Value> {
    let mut cur = v;
    for s in path {
        cur = match s {
            Step::Key(k) => cur.get_mut(k.as_str())?,
            Step::Idx(i) => cur.get_mut(*i)?,
        };
    }
    Some(cur)
}

fn size_of(v: &Value) -> usize {
    match v {
        Value::Array(a) => 1 + a.iter().map(size_of).sum::<usize>(),
        Value::Object(m) => 1 + m.values().map(size_of).sum::<usize>(),
        Value::Number(n) => 1 + (n.as_u64().unwrap_or(1).min(1 << 20) as usize + 1).ilog2() as usize,
        Value::Bool(b) => *b as usize,
        _ => 1,
    }
}

/// Shrinks `case` while `still_fails(candidate)` holds. `still_fails` must return false for
/// candidates that are not valid cases. Returns the smallest failing case found and the number of
/// candidates tried.
pub fn shrink_case(
    case: &Value,
    mut still_fails: impl FnMut(&Value) -> bool,
    max_tries: usize,
) -> (Value, usize) {
    let mut best = case.clone();
    let mut tries = 0usize;
    loop {
        let mut progressed = false;
        let mut paths = vec![];
        walk(&best, &mut vec![], &mut paths);
        // arrays first (largest effect), then scalars
        paths.sort_by_key(|p| {
            let mut b = best.clone();
            match get_mut(&mut b, p) {
                Some(Value::Array(a)) => (0, usize::MAX - a.len()),
                _ => (1, 0),
            }
        });
        'paths: for p in paths {
            if tries >= max_tries {
                return (best, tries);
            }
            let mut probe = best.clone();
            let Some(target) = get_mut(&mut probe, &p) else { continue };
            let mut cands: Vec<Value> = vec![];
            match target {
                Value::Array(a) => {
                    let n = a.len();
                    if n == 0 {
                        continue;
                    }
                    let mut chunk = n;
                    while chunk >= 1 {
                        let mut start = 0;
                        while start < n {
                            let end = (start + chunk).min(n);
                            let mut b = a.clone();
                            b.drain(start..end);
                            cands.push(Value::Array(b));
                            start += chunk;
                        }
                        if chunk == 1 {
                            break;
                        }
                        chunk /= 2;
                    }
                }
                Value::Number(x) => {
                    if let Some(u) = x.as_u64() {
                        if u > 0 {
                            cands.push(json!(0));
                            if u > 2 {
                                cands.push(json!(u / 2));
                            }
                            if u > 1 {
                                cands.push(json!(u - 1));
                            }
                        }
                    }
                }
                Value::Bool(true) => cands.push(json!(false)),
                _ => {}
            }
            for c in cands {
                if tries >= max_tries {
                    return (best, tries);
                }
                let mut cand = best.clone();
                *get_mut(&mut cand, &p).unwrap() = c;
                if size_of(&cand) >= size_of(&best) {
                    continue;
                }
                tries += 1;
                if still_fails(&cand) {
                    best = cand;
                    progressed = true;
                    continue 'paths;
                }
            }
        }
        if !progressed {
            return (best, tries);
        }
    }
}

// ------------------------------------------------------------------------------------------
// Evidence

pub struct Evidence {
    pub property_id: String,
    pub tier: Tier,
    pub seed: u64,
    pub level: String,
    pub evaluations: u64,
    pub distinct_nontrivial: u64,
    pub rule: String,
    pub samples: Vec<Value>,
    pub extra: Map<String, Value>,
    pub assumptions: Vec<String>,
    pub wall_s: f64,
    pub violations: u64,
}

impl Evidence {
    pub fn write(&self, root: &Path) -> std::io::Result<PathBuf> {
        let dir = root.join("evidence");
        std::fs::create_dir_all(&dir)?;
        let mut coverage = Map::new();
        coverage.insert("evaluations".into(), json!(self.evaluations));
        coverage.insert("distinct_nontrivial".into(), json!(self.distinct_nontrivial));
        coverage.insert("rule".into(), json!(self.rule));
        coverage.insert("samples".into(), Value::Array(self.samples.clone()));
        for (k, v) in &self.extra {
            coverage.insert(k.clone(), v.clone());
        }
        let v = json!({
            "property_id": self.property_id,
            "tier": self.tier.as_str(),
            "seed": self.seed,
            "level": self.level,
            "coverage": Value::Object(coverage),
            "assumptions": self.assumptions,
            "wall_s": self.wall_s,
            "violations": self.violations,
        });
        let path = dir.join(format!("{}.json", self.property_id));
        let tmp = dir.join(format!("{}.json.tmp", self.property_id));
        {
            let mut f = std::fs::File::create(&tmp)?;
            f.write_all(serde_json::to_string_pretty(&v).unwrap().as_bytes())?;
            f.write_all(b"\n")?;
        }
        std::fs::rename(&tmp, &path)?;
        Ok(path)
    }
}

/// Writes a replay file under <root>/replays and returns its path.
pub fn write_replay(root: &Path, name: &str, v: &Value) -> PathBuf {
    let dir = root.join("replays");
    let _ = std::fs::create_dir_all(&dir);
    let path = dir.join(name);
    std::fs::write(&path, serde_json::to_string_pretty(v).unwrap() + "\n").expect("write replay");
    path
}

/// Classifies a panic message into (class, message).
pub fn classify_panic(msg: &str) -> (String, String) {
    if let Some(rest) = msg.strip_prefix("VIOLATION[") {
        if let Some(end) = rest.find(']') {
            return (rest[..end].to_string(), rest[end + 1..].trim().to_string());
        }
    }
    if msg.contains("deadlock") {
        return ("deadlock".into(), msg.to_string());
    }
    if msg.contains("exceeded max_steps") || msg.contains("step budget") {
        return ("livelock".into(), msg.to_string());
    }
    ("panic".into(), msg.to_string())
}
