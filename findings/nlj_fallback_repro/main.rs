use datafusion::prelude::*;
use datafusion::execution::runtime_env::RuntimeEnvBuilder;
use datafusion::execution::memory_pool::FairSpillPool;
use datafusion::datasource::MemTable;
use arrow::array::{Int64Array, RecordBatch};
use arrow::datatypes::{DataType, Field, Schema};
use std::sync::Arc;

#[tokio::main(flavor = "current_thread")]
async fn main() -> datafusion::error::Result<()> {
    let limit: usize = std::env::args().nth(1).map(|s| s.parse().unwrap()).unwrap_or(0);
    let parts: usize = std::env::args().nth(2).map(|s| s.parse().unwrap()).unwrap_or(4);
    let sql = std::env::args().nth(3).unwrap_or("SELECT a.id, b.id FROM a RIGHT JOIN b ON a.v < b.v".to_string());
    let schema = Arc::new(Schema::new(vec![Field::new("id", DataType::Int64, false), Field::new("v", DataType::Int64, true)]));
    let mk = |ids: Vec<i64>, vs: Vec<i64>| RecordBatch::try_new(schema.clone(), vec![Arc::new(Int64Array::from(ids)), Arc::new(Int64Array::from(vs))]).unwrap();
    let rt = RuntimeEnvBuilder::new().with_memory_pool(Arc::new(FairSpillPool::new(limit))).build_arc()?;
    let mut cfg = SessionConfig::new().with_target_partitions(parts); cfg.options_mut().set("datafusion.optimizer.join_reordering", "false").unwrap();
    let ctx = SessionContext::new_with_config_rt(cfg, rt);
    ctx.register_table("a", Arc::new(MemTable::try_new(schema.clone(), vec![vec![mk(vec![0], vec![-14])], vec![mk(vec![1], vec![0])]])?))?;
    ctx.register_table("b", Arc::new(MemTable::try_new(schema.clone(), vec![vec![mk(vec![100, 101, 102], vec![-207, -300, -400])]])?))?;
    if sql == "hive-join" {
        // Finding (C02): with datafusion.optimizer.preserve_file_partitions >= 1 a hive-partitioned listing
        // table declares Hash([k], n) for file groups that are grouped by partition *value*. A partitioned
        // join with a table that is hash-repartitioned on k pairs group i with hash bucket i, which is not
        // where the matching rows are: the join loses its matches.
        //   nlj_repro <preserve_file_partitions> 2 hive-join
        let dir = std::env::temp_dir().join(format!("hive_join_{}", std::process::id()));
        for k in [0i64, 2] {
            let d = dir.join(format!("k={k}"));
            std::fs::create_dir_all(&d).unwrap();
            let batch = mk(vec![10 * k, 10 * k + 1], vec![1, 2]);
            let f = std::fs::File::create(d.join("part-0.parquet")).unwrap();
            let mut w = datafusion::parquet::arrow::ArrowWriter::try_new(f, batch.schema(), None).unwrap();
            w.write(&batch).unwrap();
            w.close().unwrap();
        }
        let mut cfg = SessionConfig::new().with_target_partitions(parts);
        cfg.options_mut().set("datafusion.optimizer.preserve_file_partitions", &limit.to_string()).unwrap();
        cfg.options_mut().set("datafusion.optimizer.hash_join_single_partition_threshold", "0").unwrap();
        cfg.options_mut().set("datafusion.optimizer.hash_join_single_partition_threshold_rows", "0").unwrap();
        let ctx = SessionContext::new_with_config(cfg);
        ctx.sql(&format!("CREATE EXTERNAL TABLE h (id BIGINT, v BIGINT, k BIGINT) STORED AS PARQUET PARTITIONED BY (k) LOCATION '{}/'", dir.display())).await?;
        let kschema = Arc::new(Schema::new(vec![Field::new("id", DataType::Int64, false), Field::new("k", DataType::Int64, true)]));
        let kb = RecordBatch::try_new(kschema.clone(), vec![Arc::new(Int64Array::from(vec![100, 101])), Arc::new(Int64Array::from(vec![0, 2]))]).unwrap();
        ctx.register_table("m", Arc::new(MemTable::try_new(kschema, vec![vec![kb]])?))?;
        let df = ctx.sql("SELECT h.id, m.id FROM h JOIN m ON h.k = m.k").await?;
        println!("{}", datafusion::physical_plan::displayable(df.clone().create_physical_plan().await?.as_ref()).indent(true));
        let out = df.collect().await?;
        println!("rows: {} (4 expected)", out.iter().map(|b| b.num_rows()).sum::<usize>());
        let _ = std::fs::remove_dir_all(&dir);
        return Ok(());
    }
    if sql == "reexec-parquet" {
        // Same defect, other symptom: the left child is a Parquet scan whose partitions share one work
        // queue of files; the second execution finds the queue drained, the fallback then fails with
        // "Internal error: Left side produced no data to spill" instead of ResourcesExhausted / the result.
        let dir = std::env::temp_dir().join(format!("nlj_repro_{}", std::process::id()));
        std::fs::create_dir_all(&dir).unwrap();
        // `parts` files of 3 rows each (ids 10*f + 0..2)
        for fno in 0..parts.max(1) as i64 {
            let file = dir.join(format!("a{fno}.parquet"));
            let batch = mk(vec![10 * fno, 10 * fno + 1, 10 * fno + 2], vec![-14, 0, 5]);
            let f = std::fs::File::create(&file).unwrap();
            let mut w = datafusion::parquet::arrow::ArrowWriter::try_new(f, batch.schema(), None).unwrap();
            w.write(&batch).unwrap();
            w.close().unwrap();
        }
        ctx.register_parquet("pa", dir.to_str().unwrap(), ParquetReadOptions::default()).await?;
        ctx.register_table("pb", Arc::new(MemTable::try_new(schema.clone(), vec![vec![mk(vec![100, 101, 102], vec![-207, 3, 400])]])?))?;
        let join_sql = std::env::args().nth(4).unwrap_or("SELECT pa.id, pb.id FROM pa JOIN pb ON pa.v < pb.v".to_string());
        let df = ctx.sql(&join_sql).await?;
        println!("{}", datafusion::physical_plan::displayable(df.clone().create_physical_plan().await?.as_ref()).indent(true));
        let out = df.collect().await;
        println!("result: {:?}", out.map(|b| b.iter().map(|x| x.num_rows()).sum::<usize>()));
        let _ = std::fs::remove_dir_all(&dir);
        return Ok(());
    }
    if sql == "reexec" {
        // Third finding: the fallback executes the left child a second time. A left subtree that holds a
        // RepartitionExec (whose output partitions can be executed once) then panics instead of failing
        // with ResourcesExhausted or producing the result.
        use datafusion::physical_plan::{ExecutionPlan, Partitioning, coalesce_partitions::CoalescePartitionsExec, joins::NestedLoopJoinExec, repartition::RepartitionExec};
        let left = ctx.sql("SELECT id, v FROM a").await?.create_physical_plan().await?;
        let right = ctx.sql("SELECT id, v FROM b").await?.create_physical_plan().await?;
        let left: Arc<dyn ExecutionPlan> = Arc::new(CoalescePartitionsExec::new(Arc::new(RepartitionExec::try_new(left, Partitioning::RoundRobinBatch(parts))?)));
        let join: Arc<dyn ExecutionPlan> = Arc::new(NestedLoopJoinExec::try_new(left, right, None, &datafusion::common::JoinType::Inner, None)?);
        println!("{}", datafusion::physical_plan::displayable(join.as_ref()).indent(true));
        let out = datafusion::physical_plan::collect(join, ctx.task_ctx()).await;
        println!("result: {:?}", out.map(|b| b.iter().map(|x| x.num_rows()).sum::<usize>()));
        return Ok(());
    }
    let df = ctx.sql(&sql).await?;
    println!("{}", datafusion::physical_plan::displayable(df.clone().create_physical_plan().await?.as_ref()).indent(true));
    df.show().await?;
    Ok(())
}
