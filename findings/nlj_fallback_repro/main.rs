use datafusion::prelude::*;
use datafusion::execution::runtime_env::RuntimeEnvBuilder;
use datafusion::execution::memory_pool::FairSpillPool;
use datafusion::datasource::MemTable;
use arrow::array::{Int64Array, RecordBatch};
use arrow::datatypes::{DataType, Field, Schema};
use std::sync::Arc;

#[tokio::main]
async fn main() -> datafusion::error::Result<()> {
    let limit: usize = std::env::args().nth(1).map(|s| s.parse().unwrap()).unwrap_or(0);
    let parts: usize = std::env::args().nth(2).map(|s| s.parse().unwrap()).unwrap_or(4);
    let sql = std::env::args().nth(3).unwrap_or("SELECT a.id, b.id FROM a RIGHT JOIN b ON a.v < b.v".to_string());
    let schema = Arc::new(Schema::new(vec![Field::new("id", DataType::Int64, false), Field::new("v", DataType::Int64, true)]));
    let mk = |ids: Vec<i64>, vs: Vec<i64>| RecordBatch::try_new(schema.clone(), vec![Arc::new(Int64Array::from(ids)), Arc::new(Int64Array::from(vs))]).unwrap();
    let rt = RuntimeEnvBuilder::new().with_memory_pool(Arc::new(FairSpillPool::new(limit))).build_arc()?;
    let mut cfg = SessionConfig::new().with_target_partitions(parts); cfg.options_mut().set("datafusion.optimizer.join_reordering", "false").unwrap();
    let ctx = SessionContext::new_with_config_rt(cfg, rt);
    ctx.register_table("a", Arc::new(MemTable::try_new(schema.clone(), vec![vec![mk(vec![0], vec![-14])], vec![mk(vec![1], vec![0])]])?))?;
    ctx.register_table("b", Arc::new(MemTable::try_new(schema.clone(), vec![vec![mk(vec![100, 101, 102], vec![-207, -300, -400])]])?))?;
    let df = ctx.sql(&sql).await?;
    println!("{}", datafusion::physical_plan::displayable(df.clone().create_physical_plan().await?.as_ref()).indent(true));
    df.show().await?;
    Ok(())
}
