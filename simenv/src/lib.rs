//! Simulated environment pieces that plug into seams DataFusion already has.
pub mod disk;
