//! `SimDisk`: an in-memory spill-file backend behind `TempFileFactory` / `SpillFile` /
//! `SpillWriter` (DiskManagerMode::Custom) with scripted faults.
//!
//! Locks are `parking_lot` locks: in the L2 workspace that crate is patched onto shuttle, so every
//! access to file contents is a scheduling point there; at L1 they are ordinary locks.

use bytes::Bytes;
use datafusion_common::{DataFusionError, Result};
use datafusion_execution::{SpillFile, SpillWriter, TempFileFactory};
use futures::Stream;
use parking_lot::Mutex;
use std::pin::Pin;
use std::sync::Arc;
use std::sync::atomic::{AtomicI64, AtomicU64, Ordering};
use std::task::{Context, Poll};

#[derive(Clone, Copy, Debug, PartialEq, Eq)]
pub enum FaultKind {
    Create,
    Write,
    Flush,
    Finish,
    Read,
}
impl FaultKind {
    pub fn parse(s: &str) -> Option<FaultKind> {
        Some(match s {
            "create" => FaultKind::Create,
            "write" => FaultKind::Write,
            "flush" => FaultKind::Flush,
            "finish" => FaultKind::Finish,
            "read" => FaultKind::Read,
            _ => return None,
        })
    }
    pub fn as_str(&self) -> &'static str {
        match self {
            FaultKind::Create => "create",
            FaultKind::Write => "write",
            FaultKind::Flush => "flush",
            FaultKind::Finish => "finish",
            FaultKind::Read => "read",
        }
    }
    fn idx(&self) -> usize {
        *self as usize
    }
}

/// One scripted fault: the `nth` (0-based) operation of `kind` on this disk fails.
#[derive(Clone, Debug)]
pub struct Fault {
    pub kind: FaultKind,
    pub nth: u64,
    /// every later operation of that kind fails too (a full disk stays full)
    pub sticky: bool,
    /// for writes: half of the buffer reaches the file before the error (torn write)
    pub torn: bool,
}

#[derive(Debug, Default)]
pub struct DiskStats {
    pub ops: [AtomicU64; 5],
    pub fired: [AtomicU64; 5],
    pub bytes_written: AtomicU64,
    pub live_files: AtomicI64,
    pub live_bytes: AtomicI64,
    pub files_created: AtomicU64,
    pub read_chunks: AtomicU64,
    pub read_pendings: AtomicU64,
}

#[derive(Debug)]
pub struct SimDisk {
    faults: Vec<Fault>,
    /// read chunking: 0 = everything available, k = at most k bytes per chunk
    pub read_chunk: usize,
    /// the reader returns Pending (and wakes itself) before every n-th chunk; 0 = never
    pub pending_every: u64,
    pub stats: Arc<DiskStats>,
    /// optional hard quota in bytes over all live files
    pub quota: Option<u64>,
    /// write buffering of the backend (a legal `SpillWriter` may buffer like a `BufWriter`): bytes
    /// become visible to readers only at `flush` / `finish`, or when the buffer (of this many bytes)
    /// overflows; what is still buffered when a writer is dropped without flush is lost. 0 = unbuffered
    pub write_buffer: AtomicU64,
}

impl SimDisk {
    pub fn new(faults: Vec<Fault>, read_chunk: usize, pending_every: u64) -> Arc<Self> {
        Arc::new(SimDisk {
            faults,
            read_chunk,
            pending_every,
            stats: Arc::new(DiskStats::default()),
            quota: None,
            write_buffer: AtomicU64::new(0),
        })
    }
    pub fn set_write_buffer(&self, bytes: u64) {
        self.write_buffer.store(bytes, Ordering::Relaxed);
    }
    pub fn with_quota(faults: Vec<Fault>, read_chunk: usize, pending_every: u64, quota: u64) -> Arc<Self> {
        Arc::new(SimDisk {
            faults,
            read_chunk,
            pending_every,
            stats: Arc::new(DiskStats::default()),
            quota: Some(quota),
            write_buffer: AtomicU64::new(0),
        })
    }
    /// Counts the operation and says whether it must fail (and whether torn).
    fn check(&self, kind: FaultKind) -> Option<&Fault> {
        let n = self.stats.ops[kind.idx()].fetch_add(1, Ordering::Relaxed);
        let f = self
            .faults
            .iter()
            .find(|f| f.kind == kind && (f.nth == n || (f.sticky && n > f.nth)));
        if f.is_some() {
            self.stats.fired[kind.idx()].fetch_add(1, Ordering::Relaxed);
        }
        f
    }
    pub fn fired(&self, kind: FaultKind) -> u64 {
        self.stats.fired[kind.idx()].load(Ordering::Relaxed)
    }
    pub fn any_fired(&self) -> bool {
        self.stats.fired.iter().any(|a| a.load(Ordering::Relaxed) > 0)
    }
    pub fn live_files(&self) -> i64 {
        self.stats.live_files.load(Ordering::Relaxed)
    }
    pub fn live_bytes(&self) -> i64 {
        self.stats.live_bytes.load(Ordering::Relaxed)
    }
}

fn injected(kind: &str) -> DataFusionError {
    DataFusionError::IoError(std::io::Error::other(format!("simdisk: injected {kind} failure")))
}

pub struct SimDiskFactory(pub Arc<SimDisk>);

impl TempFileFactory for SimDiskFactory {
    fn create_temp_file(&self, _description: &str) -> Result<Arc<dyn SpillFile>> {
        if self.0.check(FaultKind::Create).is_some() {
            return Err(injected("create"));
        }
        self.0.stats.files_created.fetch_add(1, Ordering::Relaxed);
        self.0.stats.live_files.fetch_add(1, Ordering::Relaxed);
        Ok(Arc::new(SimFile {
            disk: Arc::clone(&self.0),
            data: Arc::new(Mutex::new(Vec::new())),
        }))
    }
}

pub struct SimFile {
    disk: Arc<SimDisk>,
    data: Arc<Mutex<Vec<u8>>>,
}

impl Drop for SimFile {
    fn drop(&mut self) {
        let len = self.data.lock().len() as i64;
        self.disk.stats.live_files.fetch_sub(1, Ordering::Relaxed);
        self.disk.stats.live_bytes.fetch_sub(len, Ordering::Relaxed);
    }
}

impl SpillFile for SimFile {
    fn size(&self) -> Option<u64> {
        Some(self.data.lock().len() as u64)
    }
    fn read_stream(&self) -> Result<Pin<Box<dyn Stream<Item = Result<Bytes>> + Send>>> {
        Ok(Box::pin(SimReadStream {
            disk: Arc::clone(&self.disk),
            data: Arc::clone(&self.data),
            pos: 0,
            done: false,
            chunks: 0,
            pended: false,
        }))
    }
    fn open_writer(&self) -> Result<Box<dyn SpillWriter>> {
        Ok(Box::new(SimWriter { disk: Arc::clone(&self.disk), data: Arc::clone(&self.data), buffered: Vec::new() }))
    }
}

struct SimWriter {
    disk: Arc<SimDisk>,
    data: Arc<Mutex<Vec<u8>>>,
    /// written but not yet visible to readers (only used when the disk buffers writes)
    buffered: Vec<u8>,
}

impl SimWriter {
    fn publish(&mut self) {
        if !self.buffered.is_empty() {
            let b = std::mem::take(&mut self.buffered);
            self.data.lock().extend_from_slice(&b);
        }
    }
}

impl std::io::Write for SimWriter {
    fn write(&mut self, buf: &[u8]) -> std::io::Result<usize> {
        if buf.is_empty() {
            return Ok(0);
        }
        if let Some(f) = self.disk.check(FaultKind::Write) {
            if f.torn {
                let half = buf.len() / 2;
                self.data.lock().extend_from_slice(&buf[..half]);
                self.disk.stats.live_bytes.fetch_add(half as i64, Ordering::Relaxed);
            }
            return Err(std::io::Error::other("simdisk: injected write failure (ENOSPC)"));
        }
        if let Some(q) = self.disk.quota {
            if self.disk.stats.live_bytes.load(Ordering::Relaxed) as u64 + buf.len() as u64 > q {
                self.disk.stats.fired[FaultKind::Write.idx()].fetch_add(1, Ordering::Relaxed);
                return Err(std::io::Error::other("simdisk: quota exceeded (ENOSPC)"));
            }
        }
        let cap = self.disk.write_buffer.load(Ordering::Relaxed) as usize;
        if cap == 0 {
            self.data.lock().extend_from_slice(buf);
        } else {
            // like std's BufWriter: what does not fit flushes the buffer first; large writes go through
            if self.buffered.len() + buf.len() > cap {
                self.publish();
            }
            if buf.len() >= cap {
                self.data.lock().extend_from_slice(buf);
            } else {
                self.buffered.extend_from_slice(buf);
            }
        }
        self.disk.stats.live_bytes.fetch_add(buf.len() as i64, Ordering::Relaxed);
        self.disk.stats.bytes_written.fetch_add(buf.len() as u64, Ordering::Relaxed);
        Ok(buf.len())
    }
    fn flush(&mut self) -> std::io::Result<()> {
        if self.disk.check(FaultKind::Flush).is_some() {
            return Err(std::io::Error::other("simdisk: injected flush failure"));
        }
        self.publish();
        Ok(())
    }
}

impl SpillWriter for SimWriter {
    fn finish(&mut self) -> Result<()> {
        if self.disk.check(FaultKind::Finish).is_some() {
            return Err(injected("finish"));
        }
        self.publish();
        Ok(())
    }
}

/// Mirrors the default backend's `ReaderStream`: yields what is in the file now, in chunks; at
/// end-of-file it ends (and stays ended), exactly like reading a growing OS file.
struct SimReadStream {
    disk: Arc<SimDisk>,
    data: Arc<Mutex<Vec<u8>>>,
    pos: usize,
    done: bool,
    chunks: u64,
    pended: bool,
}

impl Stream for SimReadStream {
    type Item = Result<Bytes>;
    fn poll_next(mut self: Pin<&mut Self>, cx: &mut Context<'_>) -> Poll<Option<Self::Item>> {
        if self.done {
            return Poll::Ready(None);
        }
        if self.disk.pending_every > 0 && !self.pended && self.chunks % self.disk.pending_every == 0 {
            self.pended = true;
            self.disk.stats.read_pendings.fetch_add(1, Ordering::Relaxed);
            cx.waker().wake_by_ref();
            return Poll::Pending;
        }
        self.pended = false;
        if self.disk.check(FaultKind::Read).is_some() {
            self.done = true;
            return Poll::Ready(Some(Err(injected("read"))));
        }
        let chunk = {
            let d = self.data.lock();
            if self.pos >= d.len() {
                None
            } else {
                let avail = d.len() - self.pos;
                let n = if self.disk.read_chunk == 0 { avail } else { avail.min(self.disk.read_chunk) };
                Some(Bytes::copy_from_slice(&d[self.pos..self.pos + n]))
            }
        };
        match chunk {
            None => {
                self.done = true;
                Poll::Ready(None)
            }
            Some(b) => {
                self.pos += b.len();
                self.chunks += 1;
                self.disk.stats.read_chunks.fetch_add(1, Ordering::Relaxed);
                Poll::Ready(Some(Ok(b)))
            }
        }
    }
}
