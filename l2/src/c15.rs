//! C15 — exchange (distribution) channels: nothing lost, order kept, correct close, no deadlock.
//! Real code: datafusion/physical-plan/src/repartition/distributor_channels.rs (whole file).

use crate::harness::{Body, Check, Scenario, probe, violation};
use datafusion_physical_plan::repartition::verif_channels::{
    DistributionReceiver, DistributionSender, channels, partition_aware_channels,
};
use dst_common::Tier;
use dst_common::rng::Rng;
use serde_json::{Value, json};
use std::future::Future;
use std::pin::Pin;
use std::sync::{Arc, Mutex};
use std::task::{Context, Poll};

#[derive(Clone, Debug)]
enum Ev {
    SendInvoke { g: usize, ch: usize, s: usize, v: u64 },
    SendRet { g: usize, ch: usize, s: usize, v: u64, ok: bool },
    SenderDrop { g: usize, ch: usize },
    RecvRet { g: usize, ch: usize, v: Option<u64> },
    RecvDrop { g: usize, ch: usize },
}

type Hist = Arc<Mutex<Vec<Ev>>>;
fn push(h: &Hist, e: Ev) {
    h.lock().unwrap().push(e);
}

/// Counts how often the wrapped future returned Pending (reach probe).
struct CountPending<F> {
    f: F,
    key: &'static str,
}
impl<F: Future + Unpin> Future for CountPending<F> {
    type Output = F::Output;
    fn poll(mut self: Pin<&mut Self>, cx: &mut Context<'_>) -> Poll<F::Output> {
        // the channel only ever sees wakers that yield after waking (see harness::YieldingWaker)
        let w = crate::harness::yielding_waker(cx.waker());
        let mut cx2 = Context::from_waker(&w);
        let r = Pin::new(&mut self.f).poll(&mut cx2);
        if r.is_pending() {
            probe(self.key);
        }
        r
    }
}

#[derive(Clone, Debug)]
struct SenderSpec {
    ch: usize,
    msgs: u64,
    clone_mid: bool,
    continue_after_err: bool,
}
#[derive(Clone, Debug)]
struct Group {
    n: usize,
    senders: Vec<SenderSpec>,
    /// per channel: None = drain to end-of-stream, Some(k) = drop the receiver after k receives
    limits: Vec<Option<u64>>,
}

fn parse(case: &Value) -> Option<Vec<Group>> {
    let mut out = vec![];
    for g in case.get("groups")?.as_array()? {
        let n = g.get("n")?.as_u64()? as usize;
        if n == 0 || n > 4 {
            return None;
        }
        let mut senders = vec![];
        for s in g.get("senders")?.as_array()? {
            let ch = s.get("ch")?.as_u64()? as usize;
            if ch >= n {
                return None;
            }
            senders.push(SenderSpec {
                ch,
                msgs: s.get("msgs")?.as_u64()?.min(6),
                clone_mid: s.get("clone_mid")?.as_bool()?,
                continue_after_err: s.get("continue_after_err")?.as_bool()?,
            });
        }
        if senders.len() > 9 {
            return None;
        }
        let mut limits = vec![];
        for l in g.get("limits")?.as_array()? {
            limits.push(if l.is_null() { None } else { Some(l.as_u64()?) });
        }
        if limits.len() != n {
            return None;
        }
        out.push(Group { n, senders, limits });
    }
    if out.is_empty() || out.len() > 2 {
        return None;
    }
    if out.len() == 2 && out[0].n != out[1].n {
        return None;
    }
    Some(out)
}

pub struct Channels;

impl Scenario for Channels {
    fn name(&self) -> &'static str {
        "c15-channels"
    }
    fn generate(&self, rng: &mut Rng, tier: Tier) -> Value {
        let two = rng.chance(1, 5);
        let n = rng.range(1, 3);
        let max_msgs = if tier == Tier::Thorough { 4 } else { 3 };
        let mut groups = vec![];
        for _ in 0..(if two { 2 } else { 1 }) {
            let mut senders = vec![];
            for ch in 0..n {
                let k = if rng.chance(1, 10) { 0 } else { rng.range(1, if two { 2 } else { 3 }) };
                for _ in 0..k {
                    senders.push(json!({
                        "ch": ch,
                        "msgs": rng.range(0, max_msgs),
                        "clone_mid": rng.chance(1, 4),
                        "continue_after_err": rng.chance(1, 2),
                    }));
                }
            }
            let limits: Vec<Value> = (0..n)
                .map(|_| if rng.chance(1, 3) { json!(rng.range(0, 2)) } else { Value::Null })
                .collect();
            groups.push(json!({"n": n, "senders": senders, "limits": limits}));
        }
        json!({"groups": groups})
    }
    fn body(&self, case: &Value) -> Option<Body> {
        let groups = parse(case)?;
        Some(Box::new(move || run(&groups)))
    }
    fn schedules_per_case(&self, tier: Tier) -> usize {
        match tier {
            Tier::Quick => 30,
            Tier::Thorough => 90,
        }
    }
}

fn run(groups: &[Group]) {
    let hist: Hist = Arc::new(Mutex::new(Vec::new()));
    let mut handles = vec![];
    // build channels
    let (mut txs, mut rxs): (Vec<Vec<DistributionSender<u64>>>, Vec<Vec<DistributionReceiver<u64>>>) =
        if groups.len() == 1 {
            let (t, r) = channels::<u64>(groups[0].n);
            (vec![t], vec![r])
        } else {
            partition_aware_channels::<u64>(groups.len(), groups[0].n)
        };
    for (g, grp) in groups.iter().enumerate().rev() {
        let tx_g = txs.pop().unwrap();
        let rx_g = rxs.pop().unwrap();
        // hand out sender handles: clones first, the original goes to the last sender of a channel
        let mut originals: Vec<Option<DistributionSender<u64>>> = tx_g.into_iter().map(Some).collect();
        let mut per_sender: Vec<Option<DistributionSender<u64>>> = vec![];
        for (i, s) in grp.senders.iter().enumerate() {
            let later = grp.senders[i + 1..].iter().any(|t| t.ch == s.ch);
            if later {
                per_sender.push(Some(originals[s.ch].as_ref().unwrap().clone()));
            } else {
                per_sender.push(originals[s.ch].take());
            }
        }
        // channels without any sender task: close them now
        drop(originals);
        for (si, (spec, tx)) in grp.senders.iter().zip(per_sender).enumerate() {
            let h = hist.clone();
            let spec = spec.clone();
            let mut tx = tx.unwrap();
            handles.push(shuttle::future::spawn(async move {
                for k in 0..spec.msgs {
                    if spec.clone_mid && k == spec.msgs / 2 {
                        let t2 = tx.clone();
                        drop(std::mem::replace(&mut tx, t2));
                    }
                    let v = (g as u64) * 10_000 + (si as u64) * 100 + k;
                    push(&h, Ev::SendInvoke { g, ch: spec.ch, s: si, v });
                    let r = CountPending { f: tx.send(v), key: "probe.send_parked_at_gate" }.await;
                    match r {
                        Ok(()) => push(&h, Ev::SendRet { g, ch: spec.ch, s: si, v, ok: true }),
                        Err(e) => {
                            if e.0 != v {
                                violation("send-error-wrong-value", format!("sent {v}, error returned {}", e.0));
                            }
                            probe("probe.send_err");
                            push(&h, Ev::SendRet { g, ch: spec.ch, s: si, v, ok: false });
                            if !spec.continue_after_err {
                                break;
                            }
                        }
                    }
                }
                push(&h, Ev::SenderDrop { g, ch: spec.ch });
                drop(tx);
            }));
        }
        for (ch, (mut rx, limit)) in rx_g.into_iter().zip(grp.limits.clone()).enumerate() {
            let h = hist.clone();
            handles.push(shuttle::future::spawn(async move {
                let mut got = 0u64;
                loop {
                    if limit.is_some_and(|l| got >= l) {
                        break;
                    }
                    let r = CountPending { f: rx.recv(), key: "probe.recv_pending" }.await;
                    push(&h, Ev::RecvRet { g, ch, v: r });
                    match r {
                        Some(_) => got += 1,
                        None => {
                            probe("probe.recv_end_of_stream");
                            break;
                        }
                    }
                }
                if limit.is_some() {
                    probe("probe.receiver_dropped_early");
                }
                push(&h, Ev::RecvDrop { g, ch });
                drop(rx);
            }));
        }
    }
    shuttle::future::block_on(async move {
        for h in handles {
            h.await.expect("task");
        }
    });
    let h = hist.lock().unwrap().clone();
    oracle(groups, &h);
}

fn oracle(groups: &[Group], h: &[Ev]) {
    for (g, grp) in groups.iter().enumerate() {
        for ch in 0..grp.n {
            let n_sender_tasks = grp.senders.iter().filter(|s| s.ch == ch).count();
            // positions
            let mut received: Vec<(usize, u64)> = vec![];
            let mut none_at: Option<usize> = None;
            let mut recv_drop_at: Option<usize> = None;
            let mut sender_drops: Vec<usize> = vec![];
            let mut send_inv: Vec<(usize, usize, u64)> = vec![]; // (pos, sender, v)
            let mut send_ret: Vec<(usize, usize, u64, bool)> = vec![];
            for (pos, e) in h.iter().enumerate() {
                match e {
                    Ev::SendInvoke { g: g2, ch: c2, s, v } if *g2 == g && *c2 == ch => send_inv.push((pos, *s, *v)),
                    Ev::SendRet { g: g2, ch: c2, s, v, ok } if *g2 == g && *c2 == ch => send_ret.push((pos, *s, *v, *ok)),
                    Ev::SenderDrop { g: g2, ch: c2 } if *g2 == g && *c2 == ch => sender_drops.push(pos),
                    Ev::RecvRet { g: g2, ch: c2, v } if *g2 == g && *c2 == ch => match v {
                        Some(v) => {
                            if none_at.is_some() {
                                violation("value-after-end-of-stream", format!("group {g} channel {ch}: value {v} after None"));
                            }
                            received.push((pos, *v))
                        }
                        None => none_at = Some(pos),
                    },
                    Ev::RecvDrop { g: g2, ch: c2 } if *g2 == g && *c2 == ch => recv_drop_at = Some(pos),
                    _ => {}
                }
            }
            // (1) nothing invented, nothing twice
            for (i, (pos, v)) in received.iter().enumerate() {
                if received[..i].iter().any(|(_, w)| w == v) {
                    violation("duplicate", format!("group {g} channel {ch}: value {v} received twice"));
                }
                match send_inv.iter().find(|(_, _, w)| w == v) {
                    None => violation("phantom", format!("group {g} channel {ch}: value {v} was never sent here")),
                    Some((ipos, _, _)) => {
                        if ipos > pos {
                            violation("phantom", format!("group {g} channel {ch}: value {v} received before it was sent"));
                        }
                    }
                }
                // a value whose send reported an error must not be delivered
                if send_ret.iter().any(|(_, _, w, ok)| w == v && !*ok) {
                    violation("delivered-despite-error", format!("group {g} channel {ch}: value {v} delivered but its send failed"));
                }
            }
            // (1b) loss: if the receiver reached end-of-stream, every acknowledged value was delivered
            if none_at.is_some() {
                for (_, _, v, ok) in &send_ret {
                    if *ok && !received.iter().any(|(_, w)| w == v) {
                        violation("lost", format!("group {g} channel {ch}: value {v} acknowledged but never received before end-of-stream"));
                    }
                }
            }
            // (2) order: per sender FIFO, and real-time order across senders
            for (i, (_, a)) in received.iter().enumerate() {
                for (_, b) in received[i + 1..].iter() {
                    // a was received before b; it is wrong if b's send returned before a's send was invoked
                    let a_inv = send_inv.iter().find(|(_, _, w)| w == a).map(|x| x.0).unwrap();
                    let b_ret = send_ret.iter().find(|(_, _, w, _)| w == b).map(|x| x.0);
                    let a_s = send_inv.iter().find(|(_, _, w)| w == a).map(|x| x.1).unwrap();
                    let b_s = send_inv.iter().find(|(_, _, w)| w == b).map(|x| x.1).unwrap();
                    if a_s == b_s && a > b {
                        violation("reordered", format!("group {g} channel {ch}: sender {a_s} sent {b} before {a} but {a} arrived first"));
                    }
                    if let Some(b_ret) = b_ret {
                        if b_ret < a_inv {
                            violation("reordered", format!("group {g} channel {ch}: send of {b} returned before send of {a} began, but {a} arrived first"));
                        }
                    }
                }
            }
            // (3) end-of-stream only after every sender's drop was invoked
            if let Some(n) = none_at {
                let dropped_before = sender_drops.iter().filter(|p| **p < n).count();
                if dropped_before < n_sender_tasks {
                    violation("premature-end-of-stream", format!("group {g} channel {ch}: None after {dropped_before} of {n_sender_tasks} senders were dropped"));
                }
            }
            // (4) send fails only once the receiver's drop was invoked
            for (pos, s, v, ok) in &send_ret {
                if !*ok {
                    match recv_drop_at {
                        Some(d) if d < *pos => {}
                        _ => violation("spurious-send-error", format!("group {g} channel {ch}: sender {s} value {v} failed but the receiver was not dropped")),
                    }
                }
            }
        }
    }
}

pub fn check_def() -> Check {
    Check {
        property: "C15",
        level: "exploration",
        scenarios: vec![Box::new(Channels)],
        cases_quick: 16_000,
        cases_thorough: 300_000,
        rule: "cases: seeded workloads of 1-2 channel groups x 1-3 channels x 0-3 senders (clones, mid-run re-clone) x 0-4 unique values, receivers draining or dropped after k receives; each case explored under seeded random and PCT (depth 2-5) shuttle schedules with scheduling points at every channel/gate lock and in front of every atomic. distinct = distinct (case, recorded schedule) pairs; non-trivial = at least one scheduling decision had >= 2 runnable tasks",
        assumptions: vec![
            "shuttle executes atomics sequentially consistently; weak-memory reorderings are not explored",
            "values are u64 instead of record batches (the channel is generic and never inspects them)",
            "shuttle's executor replaces tokio's; wakers are standard std::task::Waker",
        ],
        components: json!({
            "real": ["datafusion/physical-plan/src/repartition/distributor_channels.rs (channels, partition_aware_channels, SendFuture, RecvFuture, both Drop impls, Gate)"],
            "stub": ["executor (shuttle)", "payload type (u64)"],
        }),
    }
}

pub fn check() -> Check {
    check_def()
}
