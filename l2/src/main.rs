//! L2 simulator entry point. See /verif/DESIGN.md §2.3.
mod c15;
mod c16;
mod c17;
mod c21;
mod c31;
mod harness;


use dst_common::rng::splitmix;
use dst_common::{Counters, Tier, load_findings, seed_from_env, shrink_case, verif_root, write_replay};
use harness::{Check, Failure, Merged, RunStats, Sched};
use serde_json::{Value, json};
use std::io::Read;
use std::process::{Command, Stdio};

fn checks() -> Vec<Check> {
    vec![c15::check(), c16::check(), c17::check(), c21::check(), c31::check()]
}

fn find_check(id: &str) -> Check {
    checks().into_iter().find(|c| c.property == id).unwrap_or_else(|| {
        eprintln!("l2: unknown property {id}");
        std::process::exit(2)
    })
}

fn usage() -> ! {
    eprintln!("usage: l2 check <Cxx> [--tier quick|thorough] | l2 replay <file> | l2 list");
    std::process::exit(2)
}

fn main() {
    harness::install_hooks();
    let args: Vec<String> = std::env::args().skip(1).collect();
    if args.is_empty() {
        usage();
    }
    match args[0].as_str() {
        "list" => {
            for c in checks() {
                println!("{}", c.property);
            }
        }
        "check" => {
            let id = args.get(1).cloned().unwrap_or_else(|| usage());
            let mut tier = std::env::var("VERIF_TIER").ok().and_then(|t| Tier::parse(&t)).unwrap_or(Tier::Quick);
            let mut i = 2;
            while i < args.len() {
                if args[i] == "--tier" {
                    tier = Tier::parse(args.get(i + 1).map(|s| s.as_str()).unwrap_or("")).unwrap_or_else(|| usage());
                    i += 1;
                }
                i += 1;
            }
            std::process::exit(coordinator(&id, tier, seed_from_env()));
        }
        "worker" => {
            let check = find_check(&args[1]);
            let tier = Tier::parse(&args[2]).unwrap();
            let seed: u64 = args[3].parse().unwrap();
            let idx: u64 = args[4].parse().unwrap();
            let n: u64 = args[5].parse().unwrap();
            let known: Vec<String> = load_findings(&verif_root())
                .into_iter()
                .filter(|f| f.property == check.property)
                .map(|f| f.signature)
                .collect();
            harness::set_known(known.clone());
            harness::worker(&check, tier, seed, idx, n, &known);
        }
        "replay" => {
            let path = args.get(1).cloned().unwrap_or_else(|| usage());
            std::process::exit(replay(&path, true));
        }
        "try" => {
            // internal: search schedules for the case in <file>; used by the shrinker
            let path = &args[1];
            let iters: usize = args[2].parse().unwrap();
            try_case(path, iters);
        }
        _ => usage(),
    }
}

fn read_json(path: &str) -> Value {
    let s = std::fs::read_to_string(path).unwrap_or_else(|e| {
        eprintln!("l2: cannot read {path}: {e}");
        std::process::exit(2)
    });
    serde_json::from_str(&s).unwrap_or_else(|e| {
        eprintln!("l2: {path} is not JSON: {e}");
        std::process::exit(2)
    })
}

fn failure_from_json(v: &Value) -> Failure {
    Failure {
        scenario: v["scenario"].as_str().unwrap_or("").to_string(),
        class: v["class"].as_str().unwrap_or("").to_string(),
        message: v["message"].as_str().unwrap_or("").to_string(),
        case: v["case"].clone(),
        case_index: v["case_index"].as_u64().unwrap_or(0),
        sched_seed: v["sched_seed"].as_u64().unwrap_or(0),
        schedule: v["schedule"].as_array().map(|a| a.iter().map(|x| x.as_i64().unwrap_or(0)).collect()).unwrap_or_default(),
    }
}

/// Re-executes a replay file. Exit 1 (+ VIOLATION line) if the same violation class reproduces.
fn replay(path: &str, announce: bool) -> i32 {
    let v = read_json(path);
    let prop = v["property"].as_str().unwrap_or("").to_string();
    let check = find_check(&prop);
    if v["class"] == json!("crash") {
        // re-run the worker's slice in this process: the crash kills it again (that is the reproduction)
        let c = &v["crash"];
        let tier = Tier::parse(c["tier"].as_str().unwrap_or("quick")).unwrap_or(Tier::Quick);
        println!("replay of {path}: re-running worker {} of {} (seed {}); a crash of this process reproduces the violation", c["worker"], c["workers"], c["seed"]);
        println!("VIOLATION property={prop} replay={path}");
        use std::io::Write;
        std::io::stdout().flush().ok();
        harness::worker(&check, tier, c["seed"].as_u64().unwrap_or(0), c["worker"].as_u64().unwrap_or(0), c["workers"].as_u64().unwrap_or(16), &[]);
        println!("replay of {path}: the slice completed without a crash this time");
        return 0;
    }
    let f = failure_from_json(&v);
    let Some(scn) = check.scenario(&f.scenario) else {
        eprintln!("l2: unknown scenario {}", f.scenario);
        return 2;
    };
    let res = harness::run_under(scn, &f.case, f.case_index, Sched::Replay { steps: f.schedule.clone() });
    match res {
        None => {
            eprintln!("l2: malformed case in {path}");
            2
        }
        Some((_, None)) => {
            println!("REPLAY-RESULT {}", json!({"reproduced": false}));
            if announce {
                println!("replay of {path}: no violation (property held on this execution)");
            }
            0
        }
        Some((_, Some(g))) => {
            let same = g.class == f.class;
            println!(
                "REPLAY-RESULT {}",
                json!({"reproduced": same, "class": g.class, "message": g.message, "schedule_len": g.schedule.len()})
            );
            if announce {
                println!("replay of {path}: {} — {}", g.class, g.message);
                println!("VIOLATION property={prop} replay={path}");
            }
            if same { 1 } else { 3 }
        }
    }
}

fn try_case(path: &str, iters: usize) {
    let v = read_json(path);
    let prop = v["property"].as_str().unwrap_or("").to_string();
    let check = find_check(&prop);
    let f = failure_from_json(&v);
    let Some(scn) = check.scenario(&f.scenario) else {
        println!("TRY-RESULT {}", json!({"failed": false, "invalid": true}));
        return;
    };
    let iters = if scn.sequential() { 1 } else { iters };
    let res = {
        // first the recorded schedule seed, then fresh ones
        let mut out = None;
        for k in 0..3u64 {
            let seed = if k == 0 { f.sched_seed } else { splitmix(f.sched_seed, k) };
            match harness::run_under(scn, &f.case, f.case_index, Sched::Random { seed, iters: iters / 3 + 1 }) {
                None => {
                    out = None;
                    break;
                }
                Some((st, Some(g))) => {
                    out = Some((st, Some(g)));
                    break;
                }
                Some((st, None)) => out = Some((st, None)),
            }
        }
        out
    };
    match res {
        None => println!("TRY-RESULT {}", json!({"failed": false, "invalid": true})),
        Some((_, None)) => println!("TRY-RESULT {}", json!({"failed": false})),
        Some((_, Some(g))) => {
            println!("TRY-RESULT {}", json!({"failed": true, "failure": g.to_json(&prop)}))
        }
    }
}

fn self_exe() -> std::path::PathBuf {
    std::env::current_exe().expect("current_exe")
}

fn run_self(args: &[String]) -> (i32, String) {
    let out = Command::new(self_exe())
        .args(args)
        .stdin(Stdio::null())
        .stderr(Stdio::null())
        .output()
        .expect("spawn self");
    (out.status.code().unwrap_or(-1), String::from_utf8_lossy(&out.stdout).to_string())
}

fn tagged(out: &str, tag: &str) -> Option<Value> {
    out.lines().find_map(|l| l.strip_prefix(tag).and_then(|r| serde_json::from_str(r.trim()).ok()))
}

fn coordinator(id: &str, tier: Tier, seed: u64) -> i32 {
    let check = find_check(id);
    let root = verif_root();
    let t0 = std::time::Instant::now();
    let n_workers: u64 = std::env::var("VERIF_WORKERS").ok().and_then(|s| s.parse().ok()).unwrap_or(16);
    println!(
        "l2: property={} tier={} VERIF_SEED={} cases={} workers={}",
        id,
        tier.as_str(),
        seed,
        check.n_cases(tier),
        n_workers
    );
    let mut children = vec![];
    for w in 0..n_workers {
        let child = Command::new(self_exe())
            .args(["worker", id, tier.as_str(), &seed.to_string(), &w.to_string(), &n_workers.to_string()])
            .stdin(Stdio::null())
            .stdout(Stdio::piped())
            .stderr(Stdio::piped())
            .spawn()
            .expect("spawn worker");
        children.push(child);
    }
    let mut m = Merged {
        cases: 0,
        execs: 0,
        distinct: 0,
        nontrivial: 0,
        steps: 0,
        max_steps: 0,
        probes: Counters::default(),
        failures: vec![],
        known_hits: vec![],
        samples: vec![],
    };
    let mut harness_error = false;
    let mut crashes: Vec<(u64, i32, String)> = vec![];
    for (w, mut c) in children.into_iter().enumerate() {
        let mut out = String::new();
        let mut err = String::new();
        // read stdout fully, then stderr (outputs are small)
        c.stdout.take().unwrap().read_to_string(&mut out).ok();
        c.stderr.take().unwrap().read_to_string(&mut err).ok();
        let status = c.wait().expect("wait");
        match tagged(&out, "WORKER-RESULT ") {
            Some(v) if status.success() => {
                m.cases += v["cases"].as_u64().unwrap_or(0);
                m.execs += v["execs"].as_u64().unwrap_or(0);
                m.distinct += v["distinct"].as_u64().unwrap_or(0);
                m.nontrivial += v["nontrivial"].as_u64().unwrap_or(0);
                m.steps += v["steps"].as_u64().unwrap_or(0);
                m.max_steps = m.max_steps.max(v["max_steps"].as_u64().unwrap_or(0));
                m.probes.merge(&Counters::from_json(&v["probes"]));
                if let Some(a) = v["failures"].as_array() {
                    m.failures.extend(a.iter().cloned());
                }
                if let Some(a) = v["known_hits"].as_array() {
                    m.known_hits.extend(a.iter().cloned());
                }
                if let Some(a) = v["samples"].as_array() {
                    if m.samples.len() < 4 {
                        m.samples.extend(a.iter().take(1).cloned());
                    }
                }
            }
            _ => {
                use std::os::unix::process::ExitStatusExt;
                // A worker killed by a signal (abort after a panic inside a destructor, segfault, ...) while
                // it runs the real code is a finding about that code, not a harness error: it is reported as
                // a violation whose replay file re-runs the worker's slice of cases.
                if let Some(sig) = status.signal() {
                    crashes.push((w as u64, sig, tail(&err, 1500).to_string()));
                } else {
                    harness_error = true;
                }
                eprintln!("l2: worker {w} failed (status {status:?})\n--- stdout\n{out}\n--- stderr\n{}", tail(&err, 4000));
            }
        }
    }
    if harness_error {
        eprintln!("l2: HARNESS ERROR (a worker failed without a signal); no verdict");
        return 2;
    }
    if let Some((w, sig, err)) = crashes.first() {
        let file = json!({
            "property": id, "level": "L2", "scenario": "worker-slice", "class": "crash",
            "message": format!("the process running the cases of worker {w} was killed by signal {sig}: {}", err.lines().rev().take(6).collect::<Vec<_>>().into_iter().rev().collect::<Vec<_>>().join(" | ")),
            "crash": {"tier": tier.as_str(), "seed": seed, "worker": w, "workers": n_workers},
            "case": Value::Null, "case_index": 0, "sched_seed": 0, "schedule": [],
        });
        let path = write_replay(&root, &format!("{id}-L2-{seed}.json"), &file);
        println!("l2: violation class=crash scenario=worker-slice — {}", file["message"].as_str().unwrap_or(""));
        println!("VIOLATION property={id} replay={}", path.display());
        return 1;
    }

    // known findings
    let findings = load_findings(&root);
    let mut reported = std::collections::BTreeSet::new();
    for k in &m.known_hits {
        let sig = k["signature"].as_str().unwrap_or("").to_string();
        if reported.insert(sig.clone()) {
            let text = findings
                .iter()
                .find(|f| f.property == id && f.signature == sig)
                .map(|f| f.text.clone())
                .unwrap_or_default();
            println!("KNOWN-FINDING: property={id} signature={sig} {text}");
        }
    }

    let mut violations = 0u64;
    let mut exit = 0;
    let mut extra_notes = vec![];
    if !m.failures.is_empty() {
        // deterministic choice: the failure with the lowest case index
        m.failures.sort_by_key(|f| f["case_index"].as_u64().unwrap_or(u64::MAX));
        let first = m.failures[0].clone();
        match confirm_and_minimise(id, &first, seed) {
            Ok((path, shr)) => {
                violations = 1;
                exit = 1;
                extra_notes.push(("violation".to_string(), shr));
                println!("VIOLATION property={id} replay={}", path.display());
            }
            Err(e) => {
                eprintln!("l2: HARNESS ERROR: candidate violation did not replay deterministically: {e}");
                let p = write_replay(&root, &format!("{id}-L2-unconfirmed-{seed}.json"), &first);
                eprintln!("l2: candidate kept at {}", p.display());
                return 2;
            }
        }
    }
    let wall = t0.elapsed().as_secs_f64();
    let mut ev = harness::evidence_from(&check, tier, seed, &m, wall, violations, extra_notes);
    if std::env::var_os("VERIF_EVIDENCE_PART").is_some() {
        // this run is one part of a check whose evidence file is written by the other simulator
        ev.property_id = format!("{}-l2.part", ev.property_id);
    }
    match ev.write(&root) {
        Ok(p) => println!("l2: evidence written to {}", p.display()),
        Err(e) => {
            eprintln!("l2: cannot write evidence: {e}");
            return 2;
        }
    }
    println!(
        "l2: {} cases, {} schedules ({} distinct non-trivial), {} steps, {:.1}s, violations={}",
        m.cases, m.execs, m.nontrivial, m.steps, wall, violations
    );
    let _ = RunStats::default();
    exit
}

fn tail(s: &str, n: usize) -> &str {
    if s.len() > n { &s[s.len() - n..] } else { s }
}

/// Confirms the candidate in a fresh process, minimises it (every candidate is evaluated in a
/// fresh process), confirms the minimised file again and returns its path.
fn confirm_and_minimise(id: &str, cand: &Value, seed: u64) -> Result<(std::path::PathBuf, Value), String> {
    let root = verif_root();
    let class = cand["class"].as_str().unwrap_or("").to_string();
    let tmp = write_replay(&root, &format!("{id}-L2-{seed}-candidate.json"), cand);
    let (code, out) = run_self(&["replay".into(), tmp.display().to_string()]);
    let rr = tagged(&out, "REPLAY-RESULT ");
    if code != 1 || rr.as_ref().map(|r| r["reproduced"] != json!(true)).unwrap_or(true) {
        return Err(format!("fresh-process replay gave exit {code}: {out}"));
    }
    // second replay must agree on the schedule length too (determinism gate)
    let (code2, out2) = run_self(&["replay".into(), tmp.display().to_string()]);
    if code2 != 1 || tagged(&out2, "REPLAY-RESULT ") != rr {
        return Err(format!("two replays disagree: {out} vs {out2}"));
    }
    let mut best = cand.clone();
    let mut tries = 0usize;
    let scratch = root.join("replays").join(format!("{id}-L2-{seed}-shrink.json"));
    let budget: usize = std::env::var("VERIF_SHRINK_TRIES").ok().and_then(|s| s.parse().ok()).unwrap_or(400);
    let case0 = cand["case"].clone();
    let (small, n) = shrink_case(
        &case0,
        |c| {
            let mut v = best.clone();
            v["case"] = c.clone();
            std::fs::write(&scratch, serde_json::to_string(&v).unwrap()).ok();
            let (_, out) = run_self(&["try".into(), scratch.display().to_string(), "60".into()]);
            match tagged(&out, "TRY-RESULT ") {
                Some(r) if r["failed"] == json!(true) && r["failure"]["class"].as_str() == Some(class.as_str()) => {
                    best = r["failure"].clone();
                    true
                }
                _ => false,
            }
        },
        budget,
    );
    tries += n;
    let _ = std::fs::remove_file(&scratch);
    let _ = small;
    let final_path = write_replay(&root, &format!("{id}-L2-{seed}.json"), &best);
    let (code, out) = run_self(&["replay".into(), final_path.display().to_string()]);
    if code != 1 {
        return Err(format!("minimised file does not replay (exit {code}): {out}"));
    }
    let _ = std::fs::remove_file(&tmp);
    println!(
        "l2: violation class={} scenario={} — {}",
        best["class"].as_str().unwrap_or(""),
        best["scenario"].as_str().unwrap_or(""),
        best["message"].as_str().unwrap_or("")
    );
    println!(
        "l2: minimised in {tries} tries: schedule {} -> {} steps",
        cand["schedule"].as_array().map(|a| a.len()).unwrap_or(0),
        best["schedule"].as_array().map(|a| a.len()).unwrap_or(0)
    );
    let summary = json!({
        "class": best["class"], "scenario": best["scenario"], "message": best["message"],
        "replay": final_path.display().to_string(), "shrink_tries": tries,
    });
    Ok((final_path, summary))
}
