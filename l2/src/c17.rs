//! C17 — memory pool accounting is exact and limits are enforced.
//! Real code: execution/src/memory_pool/{mod.rs,pool.rs,peak_recording.rs}; no stubs.

use crate::harness::{Body, Check, Scenario, probe, violation};
use datafusion_execution::memory_pool::{
    FairSpillPool, GreedyMemoryPool, MemoryConsumer, MemoryConsumerMetrics, MemoryPool, MemoryReservation,
    PeakRecordingPool, TrackConsumersPool, UnboundedMemoryPool,
};
use dst_common::Tier;
use dst_common::rng::Rng;
use serde_json::{Value, json};
use std::num::NonZeroUsize;
use std::sync::Arc;

trait MetricsSource: Send + Sync {
    fn metrics(&self) -> Vec<MemoryConsumerMetrics>;
}
impl<I: MemoryPool> MetricsSource for TrackConsumersPool<I> {
    fn metrics(&self) -> Vec<MemoryConsumerMetrics> {
        TrackConsumersPool::metrics(self)
    }
}

#[derive(Clone, Copy, Debug, PartialEq, Eq)]
enum Kind {
    Unbounded,
    Greedy,
    Fair,
}

struct Pools {
    pool: Arc<dyn MemoryPool>,
    track: Option<Arc<dyn MetricsSource>>,
    peak: Option<Arc<PeakRecordingPool>>,
    kind: Kind,
    limit: usize,
}

fn build(kind: Kind, limit: usize, track: bool, peak: bool) -> Pools {
    let top = NonZeroUsize::new(3).unwrap();
    let (mut pool, tr): (Arc<dyn MemoryPool>, Option<Arc<dyn MetricsSource>>) = match (kind, track) {
        (Kind::Unbounded, false) => (Arc::new(UnboundedMemoryPool::default()), None),
        (Kind::Greedy, false) => (Arc::new(GreedyMemoryPool::new(limit)), None),
        (Kind::Fair, false) => (Arc::new(FairSpillPool::new(limit)), None),
        (Kind::Unbounded, true) => {
            let p = Arc::new(TrackConsumersPool::new(UnboundedMemoryPool::default(), top));
            (p.clone(), Some(p))
        }
        (Kind::Greedy, true) => {
            let p = Arc::new(TrackConsumersPool::new(GreedyMemoryPool::new(limit), top));
            (p.clone(), Some(p))
        }
        (Kind::Fair, true) => {
            let p = Arc::new(TrackConsumersPool::new(FairSpillPool::new(limit), top));
            (p.clone(), Some(p))
        }
    };
    let mut pk = None;
    if peak {
        let p = Arc::new(PeakRecordingPool::new(pool));
        pk = Some(p.clone());
        pool = p;
    }
    Pools { pool, track: tr, peak: pk, kind, limit }
}

fn parse_kind(v: &Value) -> Option<(Kind, usize, bool, bool)> {
    let kind = match v.get("pool")?.as_str()? {
        "unbounded" => Kind::Unbounded,
        "greedy" => Kind::Greedy,
        "fair" => Kind::Fair,
        _ => return None,
    };
    let limit = v.get("limit")?.as_u64()? as usize;
    if limit == 0 || limit > 1 << 30 {
        return None;
    }
    Some((kind, limit, v.get("track")?.as_bool()?, v.get("peak")?.as_bool()?))
}

fn gen_pool(rng: &mut Rng) -> (String, u64, bool, bool) {
    let pool = *rng.pick(&["greedy", "greedy", "fair", "fair", "unbounded"]);
    let limit = *rng.pick(&[64u64, 100, 1000]);
    (pool.to_string(), limit, rng.chance(1, 2), rng.chance(1, 2))
}

fn gen_size(rng: &mut Rng, limit: u64) -> u64 {
    match rng.below(9) {
        0 => 0,
        1 => 1,
        2 | 3 => rng.range(2, 16),
        4 => limit / 2,
        5 => limit / 3 + 1,
        6 => limit,
        7 => limit + 1,
        _ => rng.range(1, limit * 2),
    }
}

// ---------------------------------------------------------------------------------------
// Sequential histories against a reference model

pub struct Seq;

struct MRes {
    res: MemoryReservation,
    consumer: usize,
    size: usize,
}
struct MCons {
    name: String,
    can_spill: bool,
    live: usize,
}

struct Model {
    p: Pools,
    live: Vec<MRes>,
    cons: Vec<MCons>,
    peak: usize,
    max: usize,
}

impl Model {
    fn total(&self) -> usize {
        self.live.iter().map(|r| r.size).sum()
    }
    fn consumer_total(&self, c: usize) -> usize {
        self.live.iter().filter(|r| r.consumer == c).map(|r| r.size).sum()
    }
    fn unspillable(&self) -> usize {
        self.live.iter().filter(|r| !self.cons[r.consumer].can_spill).map(|r| r.size).sum()
    }
    fn num_spill(&self) -> usize {
        self.cons.iter().filter(|c| c.can_spill && c.live > 0).count()
    }
    fn grew(&mut self) {
        let t = self.total();
        self.peak = self.peak.max(t);
        self.max = self.max.max(t);
    }
    fn check_all(&self, step: usize, what: &str) {
        let total = self.total();
        let got = self.p.pool.reserved();
        if got != total {
            violation("reserved-mismatch", format!("step {step} ({what}): pool.reserved()={got} but live reservations sum to {total}"));
        }
        for (i, r) in self.live.iter().enumerate() {
            if r.res.size() != r.size {
                violation("reservation-size-mismatch", format!("step {step} ({what}): reservation {i} size()={} expected {}", r.res.size(), r.size));
            }
        }
        if let Some(t) = &self.p.track {
            let m = t.metrics();
            for (ci, c) in self.cons.iter().enumerate() {
                let entry: Vec<&MemoryConsumerMetrics> = m.iter().filter(|x| x.name == c.name).collect();
                if c.live == 0 {
                    if !entry.is_empty() {
                        violation("tracked-consumer-not-removed", format!("step {step} ({what}): consumer {} still tracked after all its reservations were dropped", c.name));
                    }
                    continue;
                }
                if entry.len() != 1 {
                    violation("tracked-consumer-missing", format!("step {step} ({what}): consumer {} appears {} times in metrics()", c.name, entry.len()));
                }
                let want = self.consumer_total(ci);
                if entry[0].reserved != want {
                    violation("tracked-reserved-mismatch", format!("step {step} ({what}): consumer {} tracked reserved={} but its reservations sum to {want}", c.name, entry[0].reserved));
                }
                if entry[0].peak < entry[0].reserved {
                    violation("tracked-peak-below-current", format!("step {step} ({what}): consumer {} peak={} < reserved={}", c.name, entry[0].peak, entry[0].reserved));
                }
                if entry[0].can_spill != c.can_spill {
                    violation("tracked-consumer-missing", format!("step {step}: consumer {} can_spill flag differs", c.name));
                }
            }
        }
        if let Some(pk) = &self.p.peak {
            if pk.peak_reserved() != self.peak {
                violation("peak-mismatch", format!("step {step} ({what}): peak_reserved()={} but the maximum total since the last reset is {}", pk.peak_reserved(), self.peak));
            }
            if pk.max_reserved() != self.max {
                violation("max-mismatch", format!("step {step} ({what}): max_reserved()={} but the maximum total ever is {}", pk.max_reserved(), self.max));
            }
        }
    }
    /// Oracle for a *granted* fallible growth of `n` on live[i] (model not yet updated).
    fn check_grant(&self, step: usize, i: usize, n: usize) {
        if n == 0 {
            return;
        }
        let c = self.live[i].consumer;
        match self.p.kind {
            Kind::Unbounded => {}
            Kind::Greedy => {
                if self.total() + n > self.p.limit {
                    violation("greedy-limit-exceeded", format!("step {step}: try_grow({n}) granted with {} reserved and limit {}", self.total(), self.p.limit));
                }
            }
            Kind::Fair => {
                if self.cons[c].can_spill {
                    let share = self.p.limit.saturating_sub(self.unspillable()) / self.num_spill().max(1);
                    let after = self.consumer_total(c) + n;
                    if after > share {
                        let nres = self.live.iter().filter(|r| r.consumer == c).count();
                        let text = format!("step {step}: spillable consumer {} holds {after} after try_grow({n}) but its fair share is {share} (limit {}, unspillable {}, {} spillable consumers, {nres} reservations of this consumer)", self.cons[c].name, self.p.limit, self.unspillable(), self.num_spill());
                        if nres > 1 {
                            // the pool compares each *reservation* with the share (known finding)
                            crate::harness::violation_attributed("fair-pool-overshoot", "multi-reservation-consumer", text);
                        } else {
                            violation("fair-share-exceeded", text);
                        }
                    }
                } else if self.total() + n > self.p.limit {
                    violation("fair-limit-exceeded", format!("step {step}: unspillable try_grow({n}) granted with {} reserved and limit {}", self.total(), self.p.limit));
                }
            }
        }
    }
}

impl Scenario for Seq {
    fn name(&self) -> &'static str {
        "c17-seq"
    }
    fn sequential(&self) -> bool {
        true
    }
    fn weight(&self) -> u64 {
        3
    }
    fn generate(&self, rng: &mut Rng, tier: Tier) -> Value {
        let (pool, limit, track, peak) = gen_pool(rng);
        let n_ops = rng.range(3, if tier == Tier::Thorough { 40 } else { 30 });
        let mut ops = vec![json!({"op": "register", "spill": rng.chance(1, 2)})];
        let names = [
            "grow", "try_grow", "try_grow", "try_grow", "shrink", "try_shrink", "resize", "try_resize", "split",
            "take", "new_empty", "free", "drop", "register", "reset_peak", "try_grow",
        ];
        for _ in 0..n_ops {
            let op = *rng.pick(&names);
            let n = gen_size(rng, limit);
            match op {
                "register" => ops.push(json!({"op": op, "spill": rng.chance(1, 2)})),
                "reset_peak" => ops.push(json!({"op": op})),
                _ => ops.push(json!({"op": op, "r": rng.below(8), "n": n})),
            }
        }
        json!({"pool": pool, "limit": limit, "track": track, "peak": peak, "ops": ops})
    }
    fn body(&self, case: &Value) -> Option<Body> {
        let (kind, limit, track, peak) = parse_kind(case)?;
        let ops = case.get("ops")?.as_array()?.clone();
        if ops.len() > 64 {
            return None;
        }
        for o in &ops {
            o.get("op")?.as_str()?;
        }
        Some(Box::new(move || run_seq(kind, limit, track, peak, &ops)))
    }
}

fn run_seq(kind: Kind, limit: usize, track: bool, peak: bool, ops: &[Value]) {
    let mut m = Model { p: build(kind, limit, track, peak), live: vec![], cons: vec![], peak: 0, max: 0 };
    for (step, o) in ops.iter().enumerate() {
        let op = o["op"].as_str().unwrap_or("");
        let n = (o["n"].as_u64().unwrap_or(0) as usize).min(1 << 32);
        if op == "register" {
            if m.cons.len() >= 4 {
                continue;
            }
            let can_spill = o["spill"].as_bool().unwrap_or(false);
            let name = format!("c{}", m.cons.len());
            let res = MemoryConsumer::new(name.clone()).with_can_spill(can_spill).register(&m.p.pool);
            m.cons.push(MCons { name, can_spill, live: 1 });
            let consumer = m.cons.len() - 1;
            m.live.push(MRes { res, consumer, size: 0 });
            m.check_all(step, op);
            continue;
        }
        if op == "reset_peak" {
            if let Some(pk) = &m.p.peak {
                pk.reset_peak();
                m.peak = m.total();
                m.check_all(step, op);
            }
            continue;
        }
        if m.live.is_empty() {
            continue;
        }
        let i = (o["r"].as_u64().unwrap_or(0) as usize) % m.live.len();
        let size = m.live[i].size;
        match op {
            "grow" => {
                m.live[i].res.grow(n);
                m.live[i].size += n;
                m.grew();
            }
            "try_grow" => match m.live[i].res.try_grow(n) {
                Ok(()) => {
                    probe("probe.try_grow_granted");
                    m.check_grant(step, i, n);
                    m.live[i].size += n;
                    m.grew();
                }
                Err(_) => probe("probe.try_grow_refused"),
            },
            "shrink" => {
                let k = n % (size + 1);
                m.live[i].res.shrink(k);
                m.live[i].size -= k;
            }
            "try_shrink" => {
                let k = n % (size + 3);
                match m.live[i].res.try_shrink(k) {
                    Ok(new) => {
                        if k > size {
                            violation("try-shrink-granted-beyond-size", format!("step {step}: try_shrink({k}) succeeded on a reservation of {size}"));
                        }
                        if new != size - k {
                            violation("try-shrink-wrong-result", format!("step {step}: try_shrink({k}) on {size} returned {new}"));
                        }
                        m.live[i].size -= k;
                    }
                    Err(_) => {
                        if k <= size {
                            violation("try-shrink-spurious-error", format!("step {step}: try_shrink({k}) failed on a reservation of {size}"));
                        }
                        probe("probe.try_shrink_refused");
                    }
                }
            }
            "resize" => {
                m.live[i].res.resize(n);
                m.live[i].size = n;
                m.grew();
            }
            "try_resize" => match m.live[i].res.try_resize(n) {
                Ok(()) => {
                    if n > size {
                        m.check_grant(step, i, n - size);
                    }
                    m.live[i].size = n;
                    m.grew();
                }
                Err(_) => {
                    if n <= size {
                        violation("try-resize-spurious-error", format!("step {step}: try_resize({n}) failed on a reservation of {size}"));
                    }
                    probe("probe.try_resize_refused");
                }
            },
            "split" => {
                let k = n % (size + 1);
                let res = m.live[i].res.split(k);
                m.live[i].size -= k;
                let consumer = m.live[i].consumer;
                m.cons[consumer].live += 1;
                m.live.push(MRes { res, consumer, size: k });
            }
            "take" => {
                let res = m.live[i].res.take();
                m.live[i].size = 0;
                let consumer = m.live[i].consumer;
                m.cons[consumer].live += 1;
                m.live.push(MRes { res, consumer, size });
            }
            "new_empty" => {
                let res = m.live[i].res.new_empty();
                let consumer = m.live[i].consumer;
                m.cons[consumer].live += 1;
                m.live.push(MRes { res, consumer, size: 0 });
            }
            "free" => {
                let freed = m.live[i].res.free();
                if freed != size {
                    violation("free-wrong-result", format!("step {step}: free() returned {freed} for a reservation of {size}"));
                }
                m.live[i].size = 0;
            }
            "drop" => {
                let r = m.live.remove(i);
                m.cons[r.consumer].live -= 1;
                drop(r);
            }
            _ => continue,
        }
        if m.live.len() > 12 {
            let r = m.live.remove(0);
            m.cons[r.consumer].live -= 1;
        }
        m.check_all(step, op);
    }
    // release everything: the pool must be empty again
    while let Some(r) = m.live.pop() {
        m.cons[r.consumer].live -= 1;
        drop(r);
    }
    m.check_all(ops.len(), "final drop");
    if m.p.pool.reserved() != 0 {
        violation("not-zero-after-drop", format!("pool.reserved()={} after every reservation was dropped", m.p.pool.reserved()));
    }
}


// ---------------------------------------------------------------------------------------
// Concurrent, absolute-size operations: one thread resizes a shared reservation while the others grow
// it. Every interleaving of the (delta-based) operations keeps the pool's total equal to the
// reservation's size; an implementation that reads the size, talks to the pool and then *stores* the
// new size loses the concurrent update.

pub struct ResizeRace;

impl Scenario for ResizeRace {
    fn name(&self) -> &'static str {
        "c17-resize"
    }
    fn weight(&self) -> u64 {
        1
    }
    fn schedules_per_case(&self, tier: Tier) -> usize {
        match tier {
            Tier::Quick => 24,
            Tier::Thorough => 60,
        }
    }
    fn generate(&self, rng: &mut Rng, _tier: Tier) -> Value {
        let (pool, limit, track, peak) = gen_pool(rng);
        let n_growers = rng.range(1, 2);
        let growers: Vec<Value> = (0..n_growers)
            .map(|_| json!((0..rng.range(1, 3)).map(|_| json!({"op": *rng.pick(&["grow", "try_grow", "try_grow"]), "n": rng.range(1, limit / 4 + 1)})).collect::<Vec<_>>()))
            .collect();
        json!({
            "pool": pool, "limit": limit, "track": track, "peak": peak,
            "initial": rng.below(limit / 2 + 1),
            "resize": {"op": *rng.pick(&["resize", "try_resize", "try_resize"]), "n": rng.below(limit + 1)},
            "growers": growers,
            "spill": rng.chance(1, 2),
        })
    }
    fn body(&self, case: &Value) -> Option<Body> {
        let (kind, limit, track, peak) = parse_kind(case)?;
        let initial = (case.get("initial")?.as_u64()? as usize).min(limit);
        let rs = case.get("resize")?;
        let resize_op = rs.get("op")?.as_str()?.to_string();
        if !["resize", "try_resize"].contains(&resize_op.as_str()) {
            return None;
        }
        let resize_n = (rs.get("n")?.as_u64()? as usize).min(1 << 32);
        let spill = case.get("spill")?.as_bool()?;
        let mut growers: Vec<Vec<(String, usize)>> = vec![];
        for g in case.get("growers")?.as_array()? {
            let mut ops = vec![];
            for o in g.as_array()? {
                let op = o.get("op")?.as_str()?.to_string();
                if !["grow", "try_grow"].contains(&op.as_str()) {
                    return None;
                }
                ops.push((op, (o.get("n")?.as_u64()? as usize).min(1 << 32)));
            }
            if ops.len() > 6 {
                return None;
            }
            growers.push(ops);
        }
        if growers.is_empty() || growers.len() > 3 {
            return None;
        }
        Some(Box::new(move || {
            let p = build(kind, limit, track, peak);
            let res = Arc::new(MemoryConsumer::new("shared").with_can_spill(spill).register(&p.pool));
            // (set up before the threads start; a refused initial size just leaves 0)
            let _ = res.try_grow(initial);
            let mut handles = vec![];
            {
                let r = Arc::clone(&res);
                let op = resize_op.clone();
                handles.push(shuttle::thread::spawn(move || {
                    if op == "resize" {
                        r.resize(resize_n);
                    } else {
                        let _ = r.try_resize(resize_n);
                    }
                }));
            }
            for ops in growers.clone() {
                let r = Arc::clone(&res);
                handles.push(shuttle::thread::spawn(move || {
                    for (op, n) in ops {
                        if op == "grow" {
                            r.grow(n);
                        } else {
                            let _ = r.try_grow(n);
                        }
                    }
                }));
            }
            for h in handles {
                h.join().expect("pool thread");
            }
            probe("probe.resize_race_case");
            let size = res.size();
            if p.pool.reserved() != size {
                violation("reserved-mismatch", format!("after a {resize_op}({resize_n}) raced with growth of the same reservation: pool.reserved()={} but the reservation's size()={size}", p.pool.reserved()));
            }
            if let Some(t) = &p.track {
                match t.metrics().iter().find(|x| x.name == "shared") {
                    None => violation("tracked-consumer-missing", "consumer missing from metrics()".into()),
                    Some(e) if e.reserved != size => violation("tracked-reserved-mismatch", format!("tracked reserved={} but size()={size}", e.reserved)),
                    _ => {}
                }
            }
            drop(res);
            if p.pool.reserved() != 0 {
                violation("not-zero-after-drop", format!("pool.reserved()={} after the reservation was dropped", p.pool.reserved()));
            }
        }))
    }
}

// ---------------------------------------------------------------------------------------
// Concurrent: 2..3 threads sharing reservations

pub struct Conc;

#[derive(Clone, Debug)]
struct COp {
    r: usize,
    op: String,
    n: usize,
}

impl Scenario for Conc {
    fn name(&self) -> &'static str {
        "c17-conc"
    }
    fn weight(&self) -> u64 {
        1
    }
    fn schedules_per_case(&self, tier: Tier) -> usize {
        match tier {
            Tier::Quick => 24,
            Tier::Thorough => 60,
        }
    }
    fn generate(&self, rng: &mut Rng, _tier: Tier) -> Value {
        let (pool, limit, track, peak) = gen_pool(rng);
        let n_res = rng.range(1, 3);
        let mut reservations = vec![];
        for i in 0..n_res {
            // a reservation either has its own consumer or shares the previous one's
            let share_prev = i > 0 && rng.chance(1, 3);
            reservations.push(json!({"share_prev": share_prev, "spill": rng.chance(1, 2)}));
        }
        let n_thr = rng.range(2, 3);
        let fallible_only = rng.chance(2, 3);
        let mut threads = vec![];
        for _ in 0..n_thr {
            let k = rng.range(1, 4);
            let mut ops = vec![];
            for _ in 0..k {
                let op = if fallible_only {
                    *rng.pick(&["try_grow", "try_grow", "try_grow", "shrink_own", "try_shrink_own"])
                } else {
                    *rng.pick(&["grow", "try_grow", "try_grow", "shrink_own", "try_shrink_own"])
                };
                let n = match rng.below(4) {
                    0 => limit / 2 + 1,
                    1 => limit / n_thr,
                    2 => limit,
                    _ => gen_size(rng, limit),
                };
                ops.push(json!({"r": rng.below(n_res), "op": op, "n": n}));
            }
            threads.push(json!(ops));
        }
        json!({"pool": pool, "limit": limit, "track": track, "peak": peak, "reservations": reservations, "threads": threads, "monitor": rng.chance(1, 2)})
    }
    fn body(&self, case: &Value) -> Option<Body> {
        let (kind, limit, track, peak) = parse_kind(case)?;
        let mut rspec = vec![];
        for r in case.get("reservations")?.as_array()? {
            rspec.push((r.get("share_prev")?.as_bool()?, r.get("spill")?.as_bool()?));
        }
        if rspec.is_empty() || rspec.len() > 4 {
            return None;
        }
        let mut threads: Vec<Vec<COp>> = vec![];
        for t in case.get("threads")?.as_array()? {
            let mut ops = vec![];
            for o in t.as_array()? {
                let r = o.get("r")?.as_u64()? as usize;
                if r >= rspec.len() {
                    return None;
                }
                ops.push(COp { r, op: o.get("op")?.as_str()?.to_string(), n: (o.get("n")?.as_u64()? as usize).min(1 << 32) });
            }
            if ops.len() > 8 {
                return None;
            }
            threads.push(ops);
        }
        if threads.is_empty() || threads.len() > 4 {
            return None;
        }
        let monitor = case.get("monitor")?.as_bool()?;
        Some(Box::new(move || run_conc(kind, limit, track, peak, &rspec, &threads, monitor)))
    }
}

fn run_conc(kind: Kind, limit: usize, track: bool, peak: bool, rspec: &[(bool, bool)], threads: &[Vec<COp>], monitor: bool) {
    let p = build(kind, limit, track, peak);
    // reservations; consumer index per reservation
    let mut res: Vec<Arc<MemoryReservation>> = vec![];
    let mut cons_of: Vec<usize> = vec![];
    let mut cons: Vec<(String, bool)> = vec![];
    for (i, (share_prev, spill)) in rspec.iter().enumerate() {
        if *share_prev && i > 0 {
            res.push(Arc::new(res[i - 1].new_empty()));
            cons_of.push(cons_of[i - 1]);
        } else {
            let name = format!("c{}", cons.len());
            res.push(Arc::new(MemoryConsumer::new(name.clone()).with_can_spill(*spill).register(&p.pool)));
            cons.push((name, *spill));
            cons_of.push(cons.len() - 1);
        }
    }
    let infallible_used = threads.iter().flatten().any(|o| o.op == "grow" || o.op == "resize_up");
    let mut handles = vec![];
    for ops in threads.iter().cloned() {
        let res = res.clone();
        let nres = res.len();
        handles.push(shuttle::thread::spawn(move || {
            let mut own = vec![0usize; nres];
            let mut granted = 0usize;
            for o in ops {
                let r = &res[o.r];
                match o.op.as_str() {
                    "grow" => {
                        r.grow(o.n);
                        own[o.r] += o.n;
                        granted += o.n;
                    }
                    "try_grow" => {
                        if r.try_grow(o.n).is_ok() {
                            own[o.r] += o.n;
                            granted += o.n;
                            probe("probe.try_grow_granted");
                        } else {
                            probe("probe.try_grow_refused");
                        }
                    }
                    "shrink_own" => {
                        let k = o.n.min(own[o.r]);
                        r.shrink(k);
                        own[o.r] -= k;
                    }
                    "try_shrink_own" => {
                        let k = o.n.min(own[o.r]);
                        if r.try_shrink(k).is_err() {
                            violation("try-shrink-spurious-error", format!("try_shrink({k}) failed although this thread alone had grown the reservation by {}", own[o.r]));
                        }
                        own[o.r] -= k;
                    }
                    _ => {}
                }
            }
            (own, granted)
        }));
    }
    let limit_applies = kind != Kind::Unbounded && !infallible_used;
    // FairSpillPool bounds each spillable consumer by its share *at grant time* and unspillable
    // growth by what is free; when both kinds are present the shares shrink as unspillable memory
    // grows, so the total may legally pass the pool size (e.g. limit 64: spillable 32, then
    // unspillable 21, then another spillable 21 <= (64-21)/2). The total is therefore only
    // asserted for homogeneous Fair pools (and always for Greedy).
    let n_spill_cons = cons.iter().filter(|c| c.1).count();
    let total_limit_applies = limit_applies && (kind == Kind::Greedy || n_spill_cons == 0 || n_spill_cons == cons.len());
    let mon = if monitor {
        let pool = Arc::clone(&p.pool);
        Some(shuttle::thread::spawn(move || {
            let mut worst = 0usize;
            for _ in 0..3 {
                worst = worst.max(pool.reserved());
                shuttle::thread::sleep(std::time::Duration::from_nanos(0));
            }
            worst
        }))
    } else {
        None
    };
    let mut own_total = vec![0usize; res.len()];
    let mut granted_total = 0usize;
    let mut any_shrink = false;
    for (h, ops) in handles.into_iter().zip(threads.iter()) {
        let (own, granted) = h.join().expect("pool thread");
        for (i, v) in own.iter().enumerate() {
            own_total[i] += v;
        }
        granted_total += granted;
        any_shrink |= ops.iter().any(|o| o.op.contains("shrink"));
    }
    let worst_observed = mon.map(|m| m.join().expect("monitor"));
    // quiescence
    for (i, r) in res.iter().enumerate() {
        if r.size() != own_total[i] {
            violation("reservation-size-mismatch", format!("reservation {i}: size()={} but the threads' net growth is {}", r.size(), own_total[i]));
        }
    }
    let total: usize = own_total.iter().sum();
    if p.pool.reserved() != total {
        violation("reserved-mismatch", format!("pool.reserved()={} but live reservations sum to {total}", p.pool.reserved()));
    }
    // Known cause of FairSpillPool overshoot: the pool compares one reservation's size with the
    // share, so a consumer with several reservations, or a reservation grown by two threads at
    // once, is granted more than one share. Overshoots are attributed to it only when such a
    // consumer exists in the case.
    let mut cause: Vec<&str> = vec![];
    if kind == Kind::Fair {
        for (ci, c) in cons.iter().enumerate() {
            if !c.1 {
                continue;
            }
            let rs: Vec<usize> = (0..res.len()).filter(|i| cons_of[*i] == ci).collect();
            if rs.len() > 1 && !cause.contains(&"multi-reservation-consumer") {
                cause.push("multi-reservation-consumer");
            }
            for r in &rs {
                let users = threads.iter().filter(|t| t.iter().any(|o| o.r == *r && o.op.contains("grow"))).count();
                if users > 1 && !cause.contains(&"shared-reservation") {
                    cause.push("shared-reservation");
                }
            }
        }
        cause.sort();
    }
    let overshoot = |class: &str, text: String| {
        if cause.is_empty() {
            violation(class, text)
        } else {
            crate::harness::violation_attributed("fair-pool-overshoot", &cause.join("+"), text)
        }
    };
    if limit_applies && kind == Kind::Fair {
        let unspill_grows = rspec.iter().enumerate().any(|(i, _)| !cons[cons_of[i]].1 && own_total[i] > 0);
        let num_spill = cons.iter().filter(|c| c.1).count();
        if !unspill_grows && num_spill > 0 {
            let share = limit / num_spill;
            for (ci, c) in cons.iter().enumerate() {
                if c.1 {
                    let t: usize = (0..res.len()).filter(|i| cons_of[*i] == ci).map(|i| own_total[i]).sum();
                    if t > share {
                        overshoot("fair-share-exceeded", format!("spillable consumer {} holds {t} through fallible growth only, fair share is {share} (limit {limit})", c.0));
                    }
                }
            }
        }
    }
    if let Some(worst) = worst_observed {
        if total_limit_applies && worst > limit {
            overshoot("limit-exceeded-observed", format!("a concurrent observer saw pool.reserved()={worst} with limit {limit} although only fallible growth was used"));
        }
    }
    if total_limit_applies && total > limit {
        overshoot("limit-exceeded", format!("{total} reserved through fallible growth only, limit {limit}"));
    }
    if let Some(t) = &p.track {
        let m = t.metrics();
        for (ci, c) in cons.iter().enumerate() {
            let want: usize = (0..res.len()).filter(|i| cons_of[*i] == ci).map(|i| own_total[i]).sum();
            match m.iter().find(|x| x.name == c.0) {
                None => violation("tracked-consumer-missing", format!("consumer {} missing from metrics()", c.0)),
                Some(e) => {
                    if e.reserved != want {
                        violation("tracked-reserved-mismatch", format!("consumer {} tracked reserved={} but its reservations sum to {want}", c.0, e.reserved));
                    }
                    if e.peak < e.reserved {
                        violation("tracked-peak-below-current", format!("consumer {} peak={} < reserved={}", c.0, e.peak, e.reserved));
                    }
                }
            }
        }
    }
    if let Some(pk) = &p.peak {
        let peak_v = pk.peak_reserved();
        if peak_v < total {
            violation("peak-below-current", format!("peak_reserved()={peak_v} < currently reserved {total}"));
        }
        if peak_v > granted_total {
            violation("peak-above-granted", format!("peak_reserved()={peak_v} > everything ever granted ({granted_total})"));
        }
        if !any_shrink && peak_v != total {
            violation("peak-mismatch", format!("grow-only run: peak_reserved()={peak_v} but total is {total}"));
        }
        if pk.max_reserved() < peak_v {
            violation("max-below-peak", format!("max_reserved()={} < peak_reserved()={peak_v}", pk.max_reserved()));
        }
    }
    drop(res);
    if p.pool.reserved() != 0 {
        violation("not-zero-after-drop", format!("pool.reserved()={} after every reservation was dropped", p.pool.reserved()));
    }
    if let Some(t) = &p.track {
        if !t.metrics().is_empty() {
            violation("tracked-consumer-not-removed", "consumers still tracked after all reservations were dropped".into());
        }
    }
}

pub fn check() -> Check {
    Check {
        property: "C17",
        level: "exploration",
        scenarios: vec![Box::new(Seq), Box::new(Conc), Box::new(ResizeRace)],
        cases_quick: 100_000,
        cases_thorough: 2_000_000,
        rule: "c17-seq: seeded sequential histories (<= 40 ops over <= 4 consumers: register/grow/try_grow/shrink/try_shrink/resize/try_resize/split/take/new_empty/free/drop/reset_peak, sizes from {0,1,small,L/3,L/2,L,L+1,random}) checked operation by operation against a reference model, for Unbounded/Greedy/Fair x TrackConsumers x PeakRecording. c17-conc: 2-3 shuttle threads sharing 1-3 Arc<MemoryReservation>s (own or shared consumers), each running <= 4 ops and shrinking only what it grew, plus an observer thread. c17-resize: one thread resizes / try_resizes a shared reservation to an absolute size while 1-2 others grow it; total and per-consumer metrics must equal the reservation's size afterwards. Scheduling points at every pool lock and in front of every atomic. distinct = distinct histories (seq) or (case, schedule) pairs (conc); non-trivial = every sequential history, and concurrent schedules with a real choice",
        assumptions: vec![
            "sizes stay below 2^32 (arithmetic overflow of usize counters is not explored)",
            "shuttle executes atomics sequentially consistently",
            "in concurrent runs equalities are asserted at quiescence only; limits additionally through a concurrent observer",
        ],
        components: json!({
            "real": ["execution/src/memory_pool/mod.rs (MemoryConsumer, MemoryReservation)", "pool.rs (Unbounded, Greedy, FairSpill, TrackConsumersPool)", "peak_recording.rs"],
            "stub": [],
        }),
    }
}
