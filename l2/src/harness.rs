//! L2 harness: runs scenario bodies under shuttle's seeded schedulers, records every schedule,
//! turns failures into replay files, confirms them in a fresh process and minimises them.

use dst_common::rng::{Rng, fnv1a, splitmix};
use dst_common::{Counters, Evidence, Tier, classify_panic};
use serde_json::{Value, json};
use shuttle::scheduler::{
    PctScheduler, RandomScheduler, ReplayScheduler, Schedule, Scheduler, Task, TaskId,
};
use shuttle::{Config, FailurePersistence, MaxSteps, Runner};
use std::collections::HashSet;
use std::panic::{AssertUnwindSafe, catch_unwind};
use std::sync::{Arc, Mutex};
use std::time::Instant;

pub type Body = Box<dyn Fn() + Send + Sync + 'static>;

pub trait Scenario: Send + Sync {
    fn name(&self) -> &'static str;
    /// Generate a workload (a JSON case) from the PRNG. Must not touch any other randomness.
    fn generate(&self, rng: &mut Rng, tier: Tier) -> Value;
    /// The simulated execution; runs under shuttle. Panics with `VIOLATION[class] text` when the
    /// oracle fails; returns `None` when the case is malformed (only happens while shrinking).
    fn body(&self, case: &Value) -> Option<Body>;
    /// Schedules explored per generated case.
    fn schedules_per_case(&self, tier: Tier) -> usize {
        match tier {
            Tier::Quick => 24,
            Tier::Thorough => 48,
        }
    }
    /// Sequential scenarios have no concurrency: one execution per case is exhaustive.
    fn sequential(&self) -> bool {
        false
    }
    /// Relative share of the case budget.
    fn weight(&self) -> u64 {
        1
    }
}

// ---------------------------------------------------------------------------------------
// Per-execution context shared between the body and the harness (plain std primitives: the
// simulator never blocks on them and they are never held across a scheduling point).

#[derive(Default)]
pub struct ExecCtx {
    pub tag: String,
    pub probes: Counters,
    pub scenario: String,
    pub known_hits: Vec<(String, String)>,
}

/// Signatures listed in known-findings.txt (worker mode only; empty when replaying, so that a
/// replay file of a listed finding still reproduces it).
static KNOWN: Mutex<Vec<String>> = Mutex::new(Vec::new());
pub fn set_known(k: Vec<String>) {
    *KNOWN.lock().unwrap() = k;
}

/// A violation whose cause is identified precisely (`class@tag`). If that exact signature is a
/// listed known finding the execution records it and goes on (so the rest of the history is
/// still checked); otherwise it is an ordinary violation.
pub fn violation_attributed(class: &str, tag: &str, text: String) {
    let sig = {
        let g = CTX.lock().unwrap();
        let scn = g.as_ref().map(|c| c.scenario.clone()).unwrap_or_default();
        format!("{scn}:{class}@{tag}")
    };
    if KNOWN.lock().unwrap().contains(&sig) {
        if let Some(c) = CTX.lock().unwrap().as_mut() {
            c.probes.add("known_finding_hits", 1);
            if c.known_hits.len() < 2 {
                c.known_hits.push((sig, text));
            }
        }
        return;
    }
    set_tag(tag);
    violation(class, text);
}

static CTX: Mutex<Option<ExecCtx>> = Mutex::new(None);
static LAST_PANIC: Mutex<String> = Mutex::new(String::new());

thread_local! {
    static SITE_HITS: std::cell::RefCell<Counters> = std::cell::RefCell::new(Counters::default());
}

/// Adds context to the failure class of the current execution (e.g. "after-failed-push").
pub fn set_tag(t: &str) {
    if let Some(c) = CTX.lock().unwrap().as_mut() {
        if !c.tag.split('+').any(|x| x == t) {
            if !c.tag.is_empty() {
                c.tag.push('+');
            }
            c.tag.push_str(t);
        }
    }
}
pub fn probe(k: &str) {
    if let Some(c) = CTX.lock().unwrap().as_mut() {
        c.probes.add(k, 1);
    }
}
pub fn probe_n(k: &str, n: u64) {
    if let Some(c) = CTX.lock().unwrap().as_mut() {
        c.probes.add(k, n);
    }
}

/// A waker that, after waking the task, yields to the simulator: the woken task may run at once
/// (as it could on another worker thread) while the waking code is still in the middle of what it
/// was doing — e.g. between the wake-ups a `Drop` issues outside its critical section and the
/// release of the fields that follows. Only used for the futures under test.
pub struct YieldingWaker {
    inner: std::task::Waker,
}
impl std::task::Wake for YieldingWaker {
    fn wake(self: Arc<Self>) {
        self.wake_by_ref()
    }
    fn wake_by_ref(self: &Arc<Self>) {
        self.inner.wake_by_ref();
        if IN_SHUTTLE.with(|c| c.get()) && !std::thread::panicking() {
            probe("probe.yield_after_wake");
            shuttle::thread::sleep(std::time::Duration::from_nanos(0));
        }
    }
}
pub fn yielding_waker(inner: &std::task::Waker) -> std::task::Waker {
    std::task::Waker::from(Arc::new(YieldingWaker { inner: inner.clone() }))
}

pub fn violation(class: &str, text: String) -> ! {
    panic!("VIOLATION[{class}] {text}");
}

fn sync_point_hook(site: &'static str) {
    SITE_HITS.with(|h| h.borrow_mut().add(site, 1));
    // A scheduling point: the simulator may run any other thread here.
    if IN_SHUTTLE.with(|c| c.get()) {
        shuttle::thread::sleep(std::time::Duration::from_nanos(0));
    }
}
thread_local! {
    static IN_SHUTTLE: std::cell::Cell<bool> = const { std::cell::Cell::new(false) };
}

static IN_RUN: std::sync::atomic::AtomicBool = std::sync::atomic::AtomicBool::new(false);

pub fn install_hooks() {
    datafusion_common::verif::set_sync_point_hook(sync_point_hook);
    std::panic::set_hook(Box::new(|info| {
        let msg = if let Some(s) = info.payload().downcast_ref::<&str>() {
            s.to_string()
        } else if let Some(s) = info.payload().downcast_ref::<String>() {
            s.clone()
        } else {
            "non-string panic".to_string()
        };
        let loc = info
            .location()
            .map(|l| format!(" at {}:{}", l.file(), l.line()))
            .unwrap_or_default();
        if std::env::var_os("VERIF_DEBUG").is_some() || !IN_RUN.load(std::sync::atomic::Ordering::Relaxed) {
            eprintln!("[panic] {msg}{loc}");
        }
        let mut g = LAST_PANIC.lock().unwrap_or_else(|e| e.into_inner());
        if g.is_empty() {
            *g = format!("{msg}{loc}");
        }
    }));
}

// ---------------------------------------------------------------------------------------
// Recording scheduler

#[derive(Default)]
struct Rec {
    steps: Vec<i64>,
    had_choice: bool,
    seed: u64,
    execs: u64,
    total_steps: u64,
    max_steps: u64,
    hashes: HashSet<u64>,
    nontrivial: HashSet<u64>,
    salt: u64,
}
impl Rec {
    fn finish_exec(&mut self) {
        if self.execs > 0 || !self.steps.is_empty() {
            let mut h = fnv1a(0, &self.salt.to_le_bytes());
            for s in &self.steps {
                h = fnv1a(h, &s.to_le_bytes());
            }
            self.hashes.insert(h);
            if self.had_choice {
                self.nontrivial.insert(h);
            }
            self.total_steps += self.steps.len() as u64;
            self.max_steps = self.max_steps.max(self.steps.len() as u64);
        }
    }
}

struct RecordingScheduler {
    inner: Box<dyn Scheduler + Send>,
    rec: Arc<Mutex<Rec>>,
}
impl Scheduler for RecordingScheduler {
    fn new_execution(&mut self) -> Option<Schedule> {
        {
            let mut r = self.rec.lock().unwrap();
            if r.execs > 0 {
                r.finish_exec();
            }
        }
        // (may panic: PCT refuses workloads without concurrency; no lock is held here)
        let s = self.inner.new_execution();
        let mut r = self.rec.lock().unwrap();
        if let Some(s) = &s {
            r.execs += 1;
            r.steps.clear();
            r.had_choice = false;
            r.seed = s.seed;
            let scenario = CTX.lock().unwrap().as_ref().map(|c| c.scenario.clone()).unwrap_or_default();
            *CTX.lock().unwrap() = Some(ExecCtx { scenario, ..Default::default() });
        }
        s
    }
    fn next_task(
        &mut self,
        runnable: &[&Task],
        current: Option<TaskId>,
        is_yielding: bool,
    ) -> Option<TaskId> {
        let t = self.inner.next_task(runnable, current, is_yielding);
        let mut r = self.rec.lock().unwrap();
        if runnable.len() >= 2 {
            r.had_choice = true;
        }
        if let Some(t) = t {
            r.steps.push(usize::from(t) as i64);
        }
        t
    }
    fn next_u64(&mut self) -> u64 {
        let v = self.inner.next_u64();
        self.rec.lock().unwrap().steps.push(-1);
        v
    }
}

#[derive(Clone, Debug)]
pub struct Failure {
    pub scenario: String,
    pub class: String,
    pub message: String,
    pub case: Value,
    pub case_index: u64,
    pub sched_seed: u64,
    pub schedule: Vec<i64>,
}
impl Failure {
    pub fn signature(&self) -> String {
        format!("{}:{}", self.scenario, self.class)
    }
    pub fn to_json(&self, property: &str) -> Value {
        json!({
            "property": property,
            "level": "L2",
            "scenario": self.scenario,
            "class": self.class,
            "signature": self.signature(),
            "message": self.message,
            "case_index": self.case_index,
            "sched_seed": self.sched_seed,
            "case": self.case,
            "schedule": self.schedule,
        })
    }
}

#[derive(Default)]
pub struct RunStats {
    pub known: Vec<(String, String)>,
    pub execs: u64,
    pub distinct: u64,
    pub nontrivial: u64,
    pub steps: u64,
    pub max_steps: u64,
    pub probes: Counters,
}

fn shuttle_config() -> Config {
    let mut cfg = Config::new();
    cfg.stack_size = 1 << 20;
    cfg.failure_persistence = FailurePersistence::None;
    cfg.max_steps = MaxSteps::FailAfter(300_000);
    cfg.silence_warnings = true;
    cfg
}

pub enum Sched {
    Random { seed: u64, iters: usize },
    Pct { seed: u64, depth: usize, iters: usize },
    Replay { steps: Vec<i64> },
}

/// Runs `body` under the given scheduler. Returns stats and the first failure.
pub fn run_under(
    scn: &dyn Scenario,
    case: &Value,
    case_index: u64,
    sched: Sched,
) -> Option<(RunStats, Option<Failure>)> {
    let body = scn.body(case)?;
    let rec = Arc::new(Mutex::new(Rec { salt: case_index, ..Default::default() }));
    let (inner, sched_seed): (Box<dyn Scheduler + Send>, u64) = match &sched {
        Sched::Random { seed, iters } => {
            (Box::new(RandomScheduler::new_from_seed(*seed, *iters)), *seed)
        }
        Sched::Pct { seed, depth, iters } => {
            (Box::new(PctScheduler::new_from_seed(*seed, *depth, *iters)), *seed)
        }
        Sched::Replay { steps } => {
            let mut s = Schedule::new(0);
            for st in steps {
                if *st < 0 {
                    s.push_random();
                } else {
                    s.push_task(TaskId::from(*st as usize));
                }
            }
            (Box::new(ReplayScheduler::new_from_schedule(s)), 0)
        }
    };
    let rs = RecordingScheduler { inner, rec: rec.clone() };
    let runner = Runner::new(rs, shuttle_config());
    LAST_PANIC.lock().unwrap_or_else(|e| e.into_inner()).clear();
    *CTX.lock().unwrap() = Some(ExecCtx { scenario: scn.name().to_string(), ..Default::default() });
    let probes_total = Arc::new(Mutex::new(Counters::default()));
    let known_total: Arc<Mutex<Vec<(String, String)>>> = Arc::new(Mutex::new(vec![]));
    let kt = known_total.clone();
    let pt = probes_total.clone();
    let wrapped = move || {
        IN_SHUTTLE.with(|c| c.set(true));
        body();
        // execution finished normally: fold its probes
        if let Some(c) = CTX.lock().unwrap().as_mut() {
            pt.lock().unwrap().merge(&c.probes);
            c.probes = Counters::default();
            let mut k = kt.lock().unwrap();
            if k.len() < 4 {
                k.extend(c.known_hits.drain(..));
            }
        }
    };
    IN_RUN.store(true, std::sync::atomic::Ordering::Relaxed);
    let r = catch_unwind(AssertUnwindSafe(|| runner.run(wrapped)));
    IN_RUN.store(false, std::sync::atomic::Ordering::Relaxed);
    IN_SHUTTLE.with(|c| c.set(false));
    let mut rg = rec.lock().unwrap();
    rg.finish_exec();
    let mut stats = RunStats {
        known: known_total.lock().unwrap().clone(),
        execs: rg.execs,
        distinct: rg.hashes.len() as u64,
        nontrivial: rg.nontrivial.len() as u64,
        steps: rg.total_steps,
        max_steps: rg.max_steps,
        probes: probes_total.lock().unwrap().clone(),
    };
    let pct_na = |p: &Box<dyn std::any::Any + Send>| {
        p.downcast_ref::<&str>().is_some_and(|s| s.contains("did not exercise any concurrency"))
            || p.downcast_ref::<String>().is_some_and(|s| s.contains("did not exercise any concurrency"))
    };
    let failure = match r {
        Ok(_) => None,
        // PCT cannot schedule a workload that has a single task; nothing to explore there
        Err(payload) if pct_na(&payload) => None,
        Err(payload) => {
            let mut msg = if let Some(s) = payload.downcast_ref::<&str>() {
                s.to_string()
            } else if let Some(s) = payload.downcast_ref::<String>() {
                s.clone()
            } else {
                "non-string panic".to_string()
            };
            let first = LAST_PANIC.lock().unwrap_or_else(|e| e.into_inner()).clone();
            // shuttle re-raises on the main task; the first panic is the informative one
            if !first.is_empty() && !msg.starts_with("VIOLATION[") {
                if first.starts_with("VIOLATION[") || !msg.contains("deadlock") {
                    msg = first;
                }
            }
            let (mut class, message) = classify_panic(&msg);
            let ctx = CTX.lock().unwrap().take().unwrap_or_default();
            stats.probes.merge(&ctx.probes);
            if !ctx.tag.is_empty() {
                class = format!("{class}@{}", ctx.tag);
            }
            Some(Failure {
                scenario: scn.name().to_string(),
                class,
                message,
                case: case.clone(),
                case_index,
                sched_seed,
                schedule: rg.steps.clone(),
            })
        }
    };
    Some((stats, failure))
}

/// Explore one case: a share of random schedules and a share of PCT schedules.
pub fn explore_case(
    scn: &dyn Scenario,
    case: &Value,
    case_index: u64,
    case_seed: u64,
    tier: Tier,
    total: &mut RunStats,
) -> Option<Failure> {
    if scn.sequential() {
        // no concurrency in the body: one execution is exhaustive (it still runs inside shuttle,
        // because the patched parking_lot locks only exist inside an execution)
        let (st, f) = run_under(scn, case, case_index, Sched::Random { seed: splitmix(case_seed, 1), iters: 1 })?;
        fold(total, &st);
        return f;
    }
    let n = scn.schedules_per_case(tier);
    let n_pct = n / 3;
    let n_rand = n - n_pct;
    let (st, f) = run_under(
        scn,
        case,
        case_index,
        Sched::Random { seed: splitmix(case_seed, 1), iters: n_rand },
    )?;
    fold(total, &st);
    if f.is_some() {
        return f;
    }
    if n_pct > 0 {
        let depth = 2 + (splitmix(case_seed, 2) % 4) as usize;
        let (st, f) = run_under(
            scn,
            case,
            case_index ^ (1 << 62),
            Sched::Pct { seed: splitmix(case_seed, 3), depth, iters: n_pct },
        )?;
        fold(total, &st);
        if f.is_some() {
            return f;
        }
    }
    None
}

fn fold(total: &mut RunStats, st: &RunStats) {
    if total.known.len() < 8 {
        total.known.extend(st.known.iter().cloned());
    }
    total.execs += st.execs;
    total.distinct += st.distinct;
    total.nontrivial += st.nontrivial;
    total.steps += st.steps;
    total.max_steps = total.max_steps.max(st.max_steps);
    total.probes.merge(&st.probes);
}

pub fn site_hits() -> Counters {
    SITE_HITS.with(|h| h.borrow().clone())
}

// ---------------------------------------------------------------------------------------
// A property check = a set of scenarios + meta data for the evidence file.

pub struct Check {
    pub property: &'static str,
    pub level: &'static str,
    pub scenarios: Vec<Box<dyn Scenario>>,
    /// generated cases per tier (split over scenarios by weight)
    pub cases_quick: u64,
    pub cases_thorough: u64,
    pub rule: &'static str,
    pub assumptions: Vec<&'static str>,
    pub components: Value,
}

impl Check {
    pub fn scenario(&self, name: &str) -> Option<&dyn Scenario> {
        self.scenarios.iter().find(|s| s.name() == name).map(|b| b.as_ref())
    }
    pub fn n_cases(&self, tier: Tier) -> u64 {
        let base = match tier {
            Tier::Quick => self.cases_quick,
            Tier::Thorough => self.cases_thorough,
        };
        match std::env::var("VERIF_SCALE").ok().and_then(|s| s.parse::<f64>().ok()) {
            Some(f) => ((base as f64) * f).max(1.0) as u64,
            None => base,
        }
    }
    /// scenario for case index i (deterministic, weight-proportional)
    pub fn scenario_for(&self, i: u64) -> &dyn Scenario {
        let total: u64 = self.scenarios.iter().map(|s| s.weight()).sum();
        let mut k = i % total;
        for s in &self.scenarios {
            if k < s.weight() {
                return s.as_ref();
            }
            k -= s.weight();
        }
        self.scenarios[0].as_ref()
    }
}

/// Worker: explores cases i ≡ idx (mod n). Prints one JSON line.
pub fn worker(check: &Check, tier: Tier, seed: u64, idx: u64, n: u64, known: &[String]) {
    let total_cases = check.n_cases(tier);
    let mut total = RunStats::default();
    let mut cases = 0u64;
    let mut failures: Vec<Value> = vec![];
    let mut known_hits: Vec<Value> = vec![];
    let mut samples: Vec<Value> = vec![];
    // rotated blocks rather than a plain stride (which aliases with the scenario weights)
    let mut q = 0u64;
    loop {
        let i = q * n + (idx + q) % n;
        q += 1;
        if i >= total_cases {
            if (q - 1) * n >= total_cases {
                break;
            }
            continue;
        }
        let scn = check.scenario_for(i);
        let case_seed = splitmix(seed, i);
        let mut rng = Rng::new(case_seed);
        let case = scn.generate(&mut rng, tier);
        if samples.len() < 2 {
            samples.push(json!({"scenario": scn.name(), "case_index": i, "case": case}));
        }
        cases += 1;
        match explore_case(scn, &case, i, case_seed, tier, &mut total) {
            None => {}
            Some(f) => {
                if known.contains(&f.signature()) {
                    if known_hits.len() < 4 {
                        known_hits.push(f.to_json(check.property));
                    }
                    total.probes.add("known_finding_hits", 1);
                } else {
                    failures.push(f.to_json(check.property));
                    break;
                }
            }
        }
    }
    for (sig, text) in &total.known {
        if known_hits.len() < 8 {
            known_hits.push(json!({"signature": sig, "message": text}));
        }
    }
    let mut probes = total.probes.clone();
    let sites = site_hits();
    for (k, v) in &sites.0 {
        probes.add(&format!("site.{k}"), *v);
    }
    let out = json!({
        "cases": cases,
        "execs": total.execs,
        "distinct": total.distinct,
        "nontrivial": total.nontrivial,
        "steps": total.steps,
        "max_steps": total.max_steps,
        "probes": probes.to_json(),
        "failures": failures,
        "known_hits": known_hits,
        "samples": samples,
    });
    println!("WORKER-RESULT {}", serde_json::to_string(&out).unwrap());
}

pub struct Merged {
    pub cases: u64,
    pub execs: u64,
    pub distinct: u64,
    pub nontrivial: u64,
    pub steps: u64,
    pub max_steps: u64,
    pub probes: Counters,
    pub failures: Vec<Value>,
    pub known_hits: Vec<Value>,
    pub samples: Vec<Value>,
}

pub fn evidence_from(
    check: &Check,
    tier: Tier,
    seed: u64,
    m: &Merged,
    wall_s: f64,
    violations: u64,
    extra_notes: Vec<(String, Value)>,
) -> Evidence {
    let mut extra = serde_json::Map::new();
    extra.insert("simulator".into(), json!("L2: shuttle 0.9.3 (seeded random + PCT schedulers), parking_lot patched onto shuttle::sync, sync_point hook in front of atomics"));
    extra.insert("cases_generated".into(), json!(m.cases));
    extra.insert("schedules_executed".into(), json!(m.execs));
    extra.insert("distinct_schedules".into(), json!(m.distinct));
    extra.insert("scheduler_steps".into(), json!(m.steps));
    extra.insert("max_steps_in_one_schedule".into(), json!(m.max_steps));
    extra.insert(
        "runs_per_hour".into(),
        json!(if wall_s > 0.0 { (m.execs as f64 / wall_s * 3600.0) as u64 } else { 0 }),
    );
    extra.insert("simulated_time".into(), json!("not applicable at L2: shuttle models no time; progress is measured in scheduler steps (see scheduler_steps)"));
    extra.insert("faults_fired".into(), m.probes.with_prefix("fault."));
    extra.insert("probes".into(), m.probes.with_prefix("probe."));
    extra.insert("sync_point_site_hits".into(), m.probes.with_prefix("site."));
    extra.insert("known_finding_hits".into(), json!(m.probes.get("known_finding_hits")));
    extra.insert("components".into(), check.components.clone());
    for (k, v) in extra_notes {
        extra.insert(k, v);
    }
    Evidence {
        property_id: check.property.to_string(),
        tier,
        seed,
        level: check.level.to_string(),
        evaluations: m.execs,
        distinct_nontrivial: m.nontrivial,
        rule: check.rule.to_string(),
        samples: m.samples.clone(),
        extra,
        assumptions: check.assumptions.iter().map(|s| s.to_string()).collect(),
        wall_s,
        violations,
    }
}

pub fn now() -> Instant {
    Instant::now()
}
