//! C31 (filter object) — DynamicFilterPhysicalExpr under concurrent update / current /
//! with_new_children copies / wait_complete: readers only ever see published values, never go
//! backwards, see at least every update that completed before the read began; remapped copies
//! apply their own column mapping; wait_complete returns only after mark_complete and always
//! returns (no lost wake-up). Real code: physical-expr/src/expressions/dynamic_filters/mod.rs.

use crate::harness::{Body, Check, Scenario, probe, violation};
use datafusion_common::ScalarValue;
use datafusion_expr::Operator;
use datafusion_physical_expr::PhysicalExpr;
use datafusion_physical_expr::expressions::{BinaryExpr, Column, DynamicFilterPhysicalExpr, Literal, lit};
use dst_common::Tier;
use dst_common::rng::Rng;
use serde_json::{Value, json};
use std::sync::{Arc, Mutex};

#[derive(Clone, Debug)]
enum Ev {
    UpdateInvoke(i64),
    UpdateRet(i64),
    MarkInvoke,
    ReadInvoke(usize),
    ReadRet(usize, i64),
    WaitRet,
}

pub struct Filter;

fn expr_for(v: i64) -> Arc<dyn PhysicalExpr> {
    Arc::new(BinaryExpr::new(Arc::new(Column::new("a", 0)), Operator::Gt, lit(ScalarValue::Int64(Some(v)))))
}

/// (column index, threshold) of `a@i > v`; the initial `true` literal is (usize::MAX, 0)
fn parse(e: &Arc<dyn PhysicalExpr>) -> Option<(usize, i64)> {
    if let Some(b) = e.downcast_ref::<BinaryExpr>() {
        let c = b.left().downcast_ref::<Column>()?;
        let l = b.right().downcast_ref::<Literal>()?;
        if let ScalarValue::Int64(Some(v)) = l.value() {
            return Some((c.index(), *v));
        }
        return None;
    }
    if e.downcast_ref::<Literal>().is_some() {
        return Some((usize::MAX, 0));
    }
    None
}

impl Scenario for Filter {
    fn name(&self) -> &'static str {
        "c31-filter"
    }
    fn generate(&self, rng: &mut Rng, _tier: Tier) -> Value {
        json!({
            "updates": rng.range(1, 4),
            "readers": rng.range(1, 2),
            "reads": rng.range(1, 4),
            "copy": rng.chance(1, 2),
            "waiter": rng.chance(1, 2),
            "second_writer": rng.chance(1, 4),
        })
    }
    fn schedules_per_case(&self, tier: Tier) -> usize {
        match tier {
            Tier::Quick => 40,
            Tier::Thorough => 120,
        }
    }
    fn body(&self, case: &Value) -> Option<Body> {
        let updates = case.get("updates")?.as_u64()?.min(8) as i64;
        let readers = case.get("readers")?.as_u64()?.min(3) as usize;
        let reads = case.get("reads")?.as_u64()?.min(8) as usize;
        let copy = case.get("copy")?.as_bool()?;
        let waiter = case.get("waiter")?.as_bool()?;
        let second = case.get("second_writer")?.as_bool()?;
        Some(Box::new(move || run(updates, readers, reads, copy, waiter, second)))
    }
}

fn run(updates: i64, readers: usize, reads: usize, copy: bool, waiter: bool, second: bool) {
    let hist: Arc<Mutex<Vec<Ev>>> = Arc::new(Mutex::new(vec![]));
    let push = |h: &Arc<Mutex<Vec<Ev>>>, e: Ev| h.lock().unwrap().push(e);
    let base: Arc<DynamicFilterPhysicalExpr> =
        Arc::new(DynamicFilterPhysicalExpr::new(vec![Arc::new(Column::new("a", 0))], lit(true)));
    // a derived copy whose child is remapped to column index 1 (what a projection below does)
    let derived: Arc<dyn PhysicalExpr> = Arc::clone(&base)
        .with_new_children(vec![Arc::new(Column::new("a", 1))])
        .expect("with_new_children");
    let mut hs = vec![];
    // writer(s): strictly increasing thresholds; with two writers, evens and odds
    let writers: Vec<Vec<i64>> = if second {
        vec![(1..=updates).map(|i| 2 * i).collect(), (1..=updates).map(|i| 2 * i - 1).collect()]
    } else {
        vec![(1..=updates).collect()]
    };
    let n_writers = writers.len();
    let done = Arc::new(std::sync::atomic::AtomicUsize::new(0));
    for vals in writers {
        let f = Arc::clone(&base);
        let h = hist.clone();
        let done = done.clone();
        hs.push(shuttle::thread::spawn(move || {
            for v in vals {
                h.lock().unwrap().push(Ev::UpdateInvoke(v));
                f.update(expr_for(v)).expect("update");
                h.lock().unwrap().push(Ev::UpdateRet(v));
            }
            if done.fetch_add(1, std::sync::atomic::Ordering::SeqCst) + 1 == n_writers {
                h.lock().unwrap().push(Ev::MarkInvoke);
                f.mark_complete();
            }
        }));
    }
    for r in 0..readers {
        let f = Arc::clone(&base);
        let d = Arc::clone(&derived);
        let h = hist.clone();
        let use_copy = copy && r % 2 == 0;
        hs.push(shuttle::thread::spawn(move || {
            for _ in 0..reads {
                h.lock().unwrap().push(Ev::ReadInvoke(r));
                let (e, want_idx) = if use_copy {
                    let df = d.downcast_ref::<DynamicFilterPhysicalExpr>().expect("derived is a dynamic filter");
                    (df.current().expect("current"), 1usize)
                } else {
                    (f.current().expect("current"), 0usize)
                };
                let Some((idx, v)) = parse(&e) else {
                    violation("unpublished-expression", format!("current() returned an expression that was never published: {e}"))
                };
                if idx != usize::MAX && idx != want_idx {
                    violation("wrong-remap", format!("current() of the {} filter refers to column index {idx}, expected {want_idx}", if use_copy { "derived" } else { "original" }));
                }
                h.lock().unwrap().push(Ev::ReadRet(r, v));
            }
        }));
    }
    let wait_task = if waiter {
        let f = Arc::clone(&base);
        let h = hist.clone();
        Some(shuttle::future::spawn(async move {
            f.wait_complete().await;
            h.lock().unwrap().push(Ev::WaitRet);
        }))
    } else {
        None
    };
    for h in hs {
        h.join().expect("thread");
    }
    if let Some(w) = wait_task {
        shuttle::future::block_on(w).expect("waiter");
        probe("probe.waiter_returned");
    }
    let _ = push;
    let h = hist.lock().unwrap().clone();
    // oracle
    let single_writer = !second;
    let mut last_read: Vec<i64> = vec![0; readers];
    let mut pending_invoke: Vec<usize> = vec![0; readers];
    for (pos, e) in h.iter().enumerate() {
        match e {
            Ev::ReadInvoke(r) => pending_invoke[*r] = pos,
            Ev::ReadRet(r, v) => {
                let inv = pending_invoke[*r];
                let published_before_ret = h[..pos].iter().any(|x| matches!(x, Ev::UpdateInvoke(u) if u == v)) || *v == 0;
                if !published_before_ret {
                    violation("value-from-the-future", format!("reader {r} saw threshold {v} before any update published it"));
                }
                if single_writer {
                    let completed_before_invoke = h[..inv].iter().filter_map(|x| if let Ev::UpdateRet(u) = x { Some(*u) } else { None }).max().unwrap_or(0);
                    if *v < completed_before_invoke {
                        violation("stale-read", format!("reader {r} saw threshold {v} although update {completed_before_invoke} had completed before the read began"));
                    }
                    if *v < last_read[*r] {
                        violation("went-backwards", format!("reader {r} saw threshold {v} after having seen {}", last_read[*r]));
                    }
                    last_read[*r] = *v;
                }
            }
            Ev::WaitRet => {
                if !h[..pos].iter().any(|x| matches!(x, Ev::MarkInvoke)) {
                    violation("wait-complete-early", "wait_complete() returned before mark_complete() was invoked".into());
                }
            }
            _ => {}
        }
    }
}

pub fn check() -> Check {
    Check {
        property: "C31",
        level: "exploration",
        scenarios: vec![Box::new(Filter)],
        cases_quick: 2_000,
        cases_thorough: 40_000,
        rule: "c31-filter: 1-2 writer threads publishing 1-4 strictly increasing thresholds then mark_complete, 1-2 reader threads calling current() 1-4 times on the filter or on a with_new_children copy with remapped column, optionally a wait_complete() future; seeded random + PCT shuttle schedules with scheduling points at every RwLock of the filter",
        assumptions: vec!["tokio::sync::watch operations are executed as atomic steps (no scheduling point inside them)", "shuttle executes locks sequentially consistently"],
        components: json!({"real": ["physical-expr/src/expressions/dynamic_filters/mod.rs (update, current + generation cache, with_new_children, mark_complete, wait_complete)"], "stub": ["executor: shuttle"]}),
    }
}
