//! C21 (concurrent part) — two or three threads writing to different spill files of one real
//! DiskManager against one limit: accounting equalities at quiescence, the limit is never
//! overshot by admitted writes. Scheduling points in front of every atomic of disk_manager.rs.

use crate::harness::{Body, Check, Scenario, probe, violation};
use datafusion_execution::disk_manager::{DiskManager, DiskManagerBuilder, DiskManagerMode};
use dst_common::Tier;
use dst_common::rng::Rng;
use serde_json::{Value, json};
use std::io::Write;
use std::sync::Arc;

pub struct Conc;

impl Scenario for Conc {
    fn name(&self) -> &'static str {
        "c21-conc"
    }
    fn schedules_per_case(&self, tier: Tier) -> usize {
        match tier {
            Tier::Quick => 12,
            Tier::Thorough => 40,
        }
    }
    fn generate(&self, rng: &mut Rng, _tier: Tier) -> Value {
        let limit = *rng.pick(&[100u64, 300, 1000]);
        let nt = rng.range(2, 3);
        let threads: Vec<Value> = (0..nt)
            .map(|_| {
                let k = rng.range(1, 4);
                json!((0..k).map(|_| *rng.pick(&[1u64, 40, limit / 2, limit / 2 + 1, limit])).collect::<Vec<u64>>())
            })
            .collect();
        json!({"limit": limit, "threads": threads, "drop_early": rng.chance(1, 3), "monitor": rng.chance(1, 2)})
    }
    fn body(&self, case: &Value) -> Option<Body> {
        let limit = case.get("limit")?.as_u64()?;
        let mut threads: Vec<Vec<u64>> = vec![];
        for t in case.get("threads")?.as_array()? {
            threads.push(t.as_array()?.iter().map(|x| x.as_u64().unwrap_or(0).min(1 << 16)).collect());
        }
        if threads.is_empty() || threads.len() > 4 || threads.iter().any(|t| t.len() > 8) {
            return None;
        }
        let drop_early = case.get("drop_early")?.as_bool()?;
        let monitor = case.get("monitor")?.as_bool()?;
        Some(Box::new(move || run(limit, &threads, drop_early, monitor)))
    }
}

fn run(limit: u64, threads: &[Vec<u64>], drop_early: bool, monitor: bool) {
    let dm: Arc<DiskManager> = Arc::new(
        DiskManagerBuilder::default()
            .with_mode(DiskManagerMode::OsTmpDirectory)
            .with_max_temp_directory_size(limit)
            .build()
            .expect("disk manager"),
    );
    let mut hs = vec![];
    for (ti, writes) in threads.iter().cloned().enumerate() {
        let dm = Arc::clone(&dm);
        hs.push(shuttle::thread::spawn(move || {
            let file = dm.create_tmp_file("c21").expect("create");
            let mut w = file.open_writer().expect("writer");
            let mut acked = 0u64;
            for n in writes {
                match w.write_all(&vec![ti as u8; n as usize]) {
                    Ok(()) => {
                        acked += n;
                        probe("probe.write_acknowledged");
                    }
                    Err(_) => probe("fault.disk_limit_rejected"),
                }
            }
            drop(w);
            if drop_early && ti == 0 {
                // release this file while the others are still writing
                drop(file);
                return (None, 0);
            }
            (Some(file), acked)
        }));
    }
    let mon = if monitor {
        let dm = Arc::clone(&dm);
        Some(shuttle::thread::spawn(move || {
            let mut worst = 0;
            for _ in 0..3 {
                worst = worst.max(dm.used_disk_space());
                shuttle::thread::sleep(std::time::Duration::from_nanos(0));
            }
            worst
        }))
    } else {
        None
    };
    let mut files = vec![];
    let mut total = 0u64;
    for h in hs {
        let (f, a) = h.join().expect("writer thread");
        total += a;
        files.push(f);
    }
    if let Some(m) = mon {
        let _observed = m.join().expect("monitor");
        // (a transient overshoot by a write that is then rejected is legal: the counter is
        //  incremented before the limit check and rolled back; so no assertion on observations)
    }
    if dm.used_disk_space() != total {
        violation("disk-usage-mismatch", format!("used_disk_space()={} but live files hold {total} acknowledged bytes", dm.used_disk_space()));
    }
    if total > limit {
        violation("limit-exceeded", format!("{total} bytes admitted in total with limit {limit}"));
    }
    drop(files);
    if dm.used_disk_space() != 0 {
        violation("disk-usage-not-zero", format!("used_disk_space()={} after every file was released", dm.used_disk_space()));
    }
}

pub fn check() -> Check {
    Check {
        property: "C21",
        level: "fault_enumeration",
        scenarios: vec![Box::new(Conc)],
        cases_quick: 1_500,
        cases_thorough: 30_000,
        rule: "c21-conc: 2-3 shuttle threads, each creating its own spill file on the real DiskManager (limit 100-1000 bytes) and issuing 1-4 writes of sizes around the limit; one thread may release its file early; a monitor thread samples usage; scheduling points in front of every atomic of disk_manager.rs",
        assumptions: vec!["shuttle executes atomics sequentially consistently"],
        components: json!({"real": ["execution/src/disk_manager.rs on real temp files"], "stub": ["executor: shuttle threads"]}),
    }
}
