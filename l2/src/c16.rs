//! C16 — spill channels deliver every spilled batch exactly once and terminate.
//! Real code: physical-plan/src/spill/{spill_pool.rs,in_progress_spill_file.rs,spill_manager.rs,mod.rs}
//! (IPC writer, SpillReaderStream, gc_view_arrays). Stub: the disk (SimDisk), shuttle executor.

use crate::harness::{Body, Check, Scenario, probe, probe_n, set_tag, violation};
use arrow::array::{Array, Int64Array, RecordBatch, StringArray};
use arrow::datatypes::{DataType, Field, Schema, SchemaRef};
use datafusion_execution::disk_manager::{DiskManagerBuilder, DiskManagerMode};
use datafusion_execution::runtime_env::RuntimeEnvBuilder;
use datafusion_physical_plan::metrics::{ExecutionPlanMetricsSet, SpillMetrics};
use datafusion_physical_plan::spill::SpillManager;
use datafusion_physical_plan::spill::spill_pool::{self, SpillPoolSink};
use dst_common::Tier;
use dst_common::rng::Rng;
use dst_simenv::disk::{Fault, FaultKind, SimDisk, SimDiskFactory};
use futures::StreamExt;
use serde_json::{Value, json};
use std::sync::{Arc, Mutex};

#[derive(Clone, Debug)]
enum Ev {
    PushInvoke { w: usize, b: u64 },
    PushRet { w: usize, b: u64, ok: bool },
    WriterDrop { w: usize },
    Read { b: u64 },
    ReadErr,
    ReadEof,
    ReaderDrop,
}
type Hist = Arc<Mutex<Vec<Ev>>>;
fn push(h: &Hist, e: Ev) {
    h.lock().unwrap().push(e);
}

#[derive(Clone, Debug)]
struct Case {
    mpsc: bool,
    /// 0 = rotate after every batch (threshold 1 byte), k = rotate after ~k batches, >= 100 = never
    rotate_after: u64,
    /// per writer: rows per batch (0 = empty batch, which the contract skips)
    writers: Vec<Vec<u64>>,
    continue_after_fail: bool,
    reader_limit: Option<u64>,
    read_chunk: usize,
    pending_every: u64,
    /// write buffering of the simulated backend (bytes become visible to the reader at flush/finish)
    write_buffer: u64,
    fault: Option<Fault>,
    use_new_sink: bool,
    /// fault-free cases: every writer keeps its sink alive until the reader has delivered all the
    /// (non-empty) batches that writer pushed - "the reader is always woken when data becomes
    /// available", not only when the last writer goes away. Single-writer cases only: with several
    /// live writers a batch can sit in a second open file behind an unfinished first one (files are
    /// read in order), which delays delivery until a writer rotates or drops - by design, no lost wake-up
    hold_writers: bool,
}

fn parse(v: &Value) -> Option<Case> {
    let writers: Vec<Vec<u64>> = v
        .get("writers")?
        .as_array()?
        .iter()
        .map(|w| w.as_array().map(|a| a.iter().map(|x| x.as_u64().unwrap_or(1).min(64)).collect()))
        .collect::<Option<Vec<_>>>()?;
    let mpsc = v.get("mpsc")?.as_bool()?;
    if writers.is_empty() || writers.len() > 4 || (!mpsc && writers.len() != 1) {
        return None;
    }
    if writers.iter().any(|w| w.len() > 8) {
        return None;
    }
    let fault = match v.get("fault") {
        None | Some(Value::Null) => None,
        Some(f) => Some(Fault {
            kind: FaultKind::parse(f.get("kind")?.as_str()?)?,
            nth: f.get("nth")?.as_u64()?,
            sticky: f.get("sticky")?.as_bool()?,
            torn: f.get("torn")?.as_bool()?,
        }),
    };
    let single_writer = writers.len() == 1;
    Some(Case {
        mpsc,
        rotate_after: v.get("rotate_after")?.as_u64()?,
        writers,
        continue_after_fail: v.get("continue_after_fail")?.as_bool()?,
        reader_limit: match v.get("reader_limit") {
            None | Some(Value::Null) => None,
            Some(x) => Some(x.as_u64()?),
        },
        read_chunk: v.get("read_chunk")?.as_u64()? as usize,
        pending_every: v.get("pending_every")?.as_u64()?,
        write_buffer: v.get("write_buffer").and_then(|x| x.as_u64()).unwrap_or(0).min(1 << 20),
        hold_writers: v.get("hold_writers").and_then(|x| x.as_bool()).unwrap_or(false) && fault.is_none() && single_writer,
        fault,
        use_new_sink: v.get("use_new_sink")?.as_bool()?,
    })
}

fn schema() -> SchemaRef {
    Arc::new(Schema::new(vec![
        Field::new("id", DataType::Int64, false),
        Field::new("payload", DataType::Utf8, true),
    ]))
}

/// Batch `b` (globally unique id) with `rows` rows; contents are a pure function of (b, rows).
fn make_batch(b: u64, rows: u64) -> RecordBatch {
    let ids: Vec<i64> = (0..rows).map(|r| (b * 1000 + r) as i64).collect();
    let payload: Vec<Option<String>> = (0..rows)
        .map(|r| if (b + r) % 5 == 0 { None } else { Some(format!("b{b}r{r}{}", "x".repeat(((b * 7 + r) % 11) as usize))) })
        .collect();
    RecordBatch::try_new(schema(), vec![Arc::new(Int64Array::from(ids)), Arc::new(StringArray::from(payload))]).unwrap()
}

fn batch_id(batch: &RecordBatch) -> Option<u64> {
    let ids = batch.column(0).as_any().downcast_ref::<Int64Array>()?;
    if ids.is_empty() {
        return None;
    }
    Some(ids.value(0) as u64 / 1000)
}

pub struct SpillChannel {
    pub faults: bool,
}

impl Scenario for SpillChannel {
    fn name(&self) -> &'static str {
        if self.faults { "c16-spill-faults" } else { "c16-spill" }
    }
    fn weight(&self) -> u64 {
        if self.faults { 2 } else { 3 }
    }
    fn generate(&self, rng: &mut Rng, tier: Tier) -> Value {
        let mpsc = rng.chance(3, 5);
        let nw = if mpsc { rng.range(1, 3) } else { 1 };
        let max_b = if tier == Tier::Thorough { 4 } else { 3 };
        let writers: Vec<Value> = (0..nw)
            .map(|_| {
                let nb = rng.range(0, max_b);
                json!((0..nb).map(|_| if rng.chance(1, 8) { 0 } else { rng.range(1, 5) }).collect::<Vec<u64>>())
            })
            .collect();
        let total: u64 = writers.iter().map(|w| w.as_array().unwrap().len() as u64).sum();
        let rotate_after = *rng.pick(&[0u64, 0, 1, 2, 3, 100]);
        let fault = if self.faults {
            let kind = *rng.pick(&["write", "write", "write", "flush", "finish", "create"]);
            // one IPC message is a handful of write calls; spread positions over the whole run
            let span = match kind {
                "write" => (total * 3).max(1),
                "flush" => total.max(1),
                "finish" => total.max(1),
                _ => total.max(1),
            };
            json!({"kind": kind, "nth": rng.below(span), "sticky": rng.chance(1, 3), "torn": rng.chance(1, 2)})
        } else {
            Value::Null
        };
        json!({
            "mpsc": mpsc,
            "rotate_after": rotate_after,
            "writers": writers,
            "continue_after_fail": rng.chance(1, 2),
            "reader_limit": if rng.chance(1, 6) { json!(rng.range(0, 2)) } else { Value::Null },
            "read_chunk": *rng.pick(&[0u64, 0, 1, 7, 64]),
            "pending_every": *rng.pick(&[0u64, 0, 1, 2]),
            "write_buffer": *rng.pick(&[0u64, 0, 24, 200, 8192]),
            "fault": fault,
            "use_new_sink": rng.chance(1, 2),
            "hold_writers": !self.faults && rng.chance(1, 2),
        })
    }
    fn body(&self, case: &Value) -> Option<Body> {
        let c = parse(case)?;
        Some(Box::new(move || run(&c)))
    }
    fn schedules_per_case(&self, tier: Tier) -> usize {
        match tier {
            Tier::Quick => 18,
            Tier::Thorough => 48,
        }
    }
}

fn run(c: &Case) {
    let hist: Hist = Arc::new(Mutex::new(Vec::new()));
    let disk = SimDisk::new(c.fault.clone().into_iter().collect(), c.read_chunk, c.pending_every);
    disk.set_write_buffer(c.write_buffer);
    let env = RuntimeEnvBuilder::new()
        .with_disk_manager_builder(
            DiskManagerBuilder::default()
                .with_mode(DiskManagerMode::Custom(Arc::new(SimDiskFactory(Arc::clone(&disk))))),
        )
        .build_arc()
        .expect("runtime env");
    let metrics_set = ExecutionPlanMetricsSet::new();
    let metrics = SpillMetrics::new(&metrics_set, 0);
    let sm = Arc::new(SpillManager::new(env, metrics, schema()));
    let approx = make_batch(0, 3).get_array_memory_size();
    let max_file_size = match c.rotate_after {
        0 => 1,
        k if k >= 100 => usize::MAX / 2,
        k => approx * k as usize,
    };

    // sinks
    let mut sinks: Vec<SpillPoolSink> = vec![];
    let mut writer_handles: Vec<spill_pool::SpillPoolWriter> = vec![];
    let reader;
    if c.mpsc {
        let (w, r) = spill_pool::mpsc_channel(max_file_size, sm);
        reader = r;
        if c.use_new_sink {
            for _ in 0..c.writers.len() {
                sinks.push(w.new_sink());
            }
            drop(w);
        } else {
            for _ in 1..c.writers.len() {
                writer_handles.push(w.clone());
            }
            writer_handles.push(w);
        }
    } else {
        let (w, r) = spill_pool::spsc_channel(max_file_size, sm);
        reader = r;
        sinks.push(w);
    }
    enum W {
        Sink(SpillPoolSink),
        Writer(spill_pool::SpillPoolWriter),
    }
    let mut ws: Vec<W> = sinks.into_iter().map(W::Sink).collect();
    ws.extend(writer_handles.into_iter().map(W::Writer));

    // delivered batch ids + "the reader has stopped", for writers that hold their sink
    let delivered: Arc<(shuttle::sync::Mutex<(std::collections::BTreeSet<u64>, bool)>, shuttle::sync::Condvar)> =
        Arc::new((shuttle::sync::Mutex::new((Default::default(), false)), shuttle::sync::Condvar::new()));
    let hold = c.hold_writers;
    let mut threads = vec![];
    let mut next_id = 1u64;
    for (wi, (w, rows)) in ws.into_iter().zip(c.writers.clone()).enumerate() {
        let h = hist.clone();
        let ids: Vec<u64> = rows.iter().map(|_| { let i = next_id; next_id += 1; i }).collect();
        let cont = c.continue_after_fail;
        let dl = delivered.clone();
        threads.push(shuttle::thread::spawn(move || {
            let mut mine: Vec<u64> = vec![];
            for (b, r) in ids.iter().zip(rows.iter()) {
                let batch = make_batch(*b, *r);
                push(&h, Ev::PushInvoke { w: wi, b: *b });
                let res = match &w {
                    W::Sink(s) => s.push_batch(&batch),
                    W::Writer(s) => s.push_batch(&batch),
                };
                let ok = res.is_ok();
                push(&h, Ev::PushRet { w: wi, b: *b, ok });
                if ok && *r > 0 {
                    mine.push(*b);
                }
                if !ok {
                    set_tag("after-failed-push");
                    probe("probe.push_failed");
                    if !cont {
                        break;
                    }
                }
            }
            if hold {
                // the sink stays alive: only the wake-ups of push_batch itself can make the reader
                // deliver these batches; a lost one leaves both sides blocked (deadlock report)
                let (m, cv) = &*dl;
                let mut g = m.lock().unwrap();
                while !g.1 && !mine.iter().all(|b| g.0.contains(b)) {
                    g = cv.wait(g).unwrap();
                }
                drop(g);
                probe("probe.writer_held_until_delivery");
            }
            push(&h, Ev::WriterDrop { w: wi });
            drop(w);
        }));
    }
    let hr = hist.clone();
    let limit = c.reader_limit;
    let dl = delivered.clone();
    let reader_task = shuttle::future::spawn(async move {
        let mut reader = reader;
        let mut got = 0u64;
        loop {
            if limit.is_some_and(|l| got >= l) {
                break;
            }
            // the pool only ever sees wakers that yield after waking (see harness::YieldingWaker)
            let item = std::future::poll_fn(|cx| {
                let w = crate::harness::yielding_waker(cx.waker());
                let mut cx2 = std::task::Context::from_waker(&w);
                reader.poll_next_unpin(&mut cx2)
            })
            .await;
            match item {
                Some(Ok(batch)) => {
                    got += 1;
                    match batch_id(&batch) {
                        Some(b) => {
                            let rows = batch.num_rows() as u64;
                            if make_batch(b, rows) != batch {
                                violation("corrupt-batch", format!("batch {b} read back with different contents"));
                            }
                            push(&hr, Ev::Read { b });
                            let (m, cv) = &*dl;
                            m.lock().unwrap().0.insert(b);
                            cv.notify_all();
                        }
                        None => violation("empty-batch-delivered", "reader produced an empty batch".into()),
                    }
                }
                Some(Err(_)) => {
                    push(&hr, Ev::ReadErr);
                    break;
                }
                None => {
                    push(&hr, Ev::ReadEof);
                    break;
                }
            }
        }
        push(&hr, Ev::ReaderDrop);
        {
            let (m, cv) = &*dl;
            m.lock().unwrap().1 = true;
            cv.notify_all();
        }
        drop(reader);
    });
    for t in threads {
        t.join().expect("writer thread");
    }
    shuttle::future::block_on(reader_task).expect("reader task");

    // fold disk statistics into probes
    for k in [FaultKind::Create, FaultKind::Write, FaultKind::Flush, FaultKind::Finish, FaultKind::Read] {
        let n = disk.fired(k);
        if n > 0 {
            probe_n(&format!("fault.disk_{}", k.as_str()), n);
        }
    }
    probe_n("probe.files_created", disk.stats.files_created.load(std::sync::atomic::Ordering::Relaxed));
    probe_n("probe.read_pending_injected", disk.stats.read_pendings.load(std::sync::atomic::Ordering::Relaxed));
    let h = hist.lock().unwrap().clone();
    oracle(c, &h, disk.any_fired());
    if disk.live_files() != 0 {
        violation(
            "spill-file-leak",
            format!("{} spill files ({} bytes) still alive after writers and reader were dropped", disk.live_files(), disk.live_bytes()),
        );
    }
}

fn oracle(c: &Case, h: &[Ev], fault_fired: bool) {
    let pos_of = |pred: &dyn Fn(&Ev) -> bool| h.iter().position(|e| pred(e));
    let mut read: Vec<(usize, u64)> = vec![];
    let mut pushed: Vec<(u64, usize, bool, usize)> = vec![]; // (batch, writer, ok, invoke_pos)
    for (pos, e) in h.iter().enumerate() {
        match e {
            Ev::PushInvoke { w, b } => pushed.push((*b, *w, false, pos)),
            Ev::PushRet { b, ok, .. } => {
                if let Some(p) = pushed.iter_mut().find(|p| p.0 == *b) {
                    p.2 = *ok;
                }
            }
            Ev::Read { b } => read.push((pos, *b)),
            _ => {}
        }
    }
    let rows_of = |b: u64| -> u64 {
        let mut id = 1u64;
        for w in &c.writers {
            for r in w {
                if id == b {
                    return *r;
                }
                id += 1;
            }
        }
        0
    };
    // exactly-once, nothing invented
    for (i, (pos, b)) in read.iter().enumerate() {
        if read[..i].iter().any(|(_, x)| x == b) {
            violation("duplicate", format!("batch {b} delivered twice"));
        }
        match pushed.iter().find(|p| p.0 == *b) {
            None => violation("phantom", format!("batch {b} delivered but never pushed")),
            Some(p) if p.3 > *pos => violation("phantom", format!("batch {b} delivered before its push began")),
            _ => {}
        }
    }
    let eof = pos_of(&|e| matches!(e, Ev::ReadEof));
    let err = pos_of(&|e| matches!(e, Ev::ReadErr));
    let drained = c.reader_limit.is_none() || eof.is_some();
    // end-of-stream only after the last writer's drop was invoked
    if let Some(eof) = eof {
        let drops = h[..eof].iter().filter(|e| matches!(e, Ev::WriterDrop { .. })).count();
        if drops < c.writers.len() {
            violation("premature-end-of-stream", format!("end-of-stream after {drops} of {} writers were dropped", c.writers.len()));
        }
        probe("probe.reader_saw_eof");
    }
    let acked: Vec<u64> = pushed.iter().filter(|p| p.2 && rows_of(p.0) > 0).map(|p| p.0).collect();
    if !fault_fired {
        if err.is_some() {
            violation("reader-error-without-fault", "the reader returned an error although no fault was injected".into());
        }
        if h.iter().any(|e| matches!(e, Ev::PushRet { ok: false, .. })) {
            violation("push-error-without-fault", "a push failed although no fault was injected".into());
        }
        if drained && eof.is_some() {
            let got: Vec<u64> = read.iter().map(|r| r.1).collect();
            if c.mpsc && c.writers.len() > 1 {
                let mut a = acked.clone();
                let mut g = got.clone();
                a.sort();
                g.sort();
                if a != g {
                    violation("lost-or-extra", format!("pushed (non-empty) {a:?} but read {g:?}"));
                }
            } else if acked != got {
                violation("lost-or-reordered", format!("single writer pushed {acked:?} but reader saw {got:?}"));
            }
        }
    } else {
        // Fault-relaxed: batches sharing a file with a failed write may be lost; with one file per
        // batch (rotate_after == 0) nothing acknowledged shares a file with the failure.
        if c.rotate_after == 0 && drained && eof.is_some() && err.is_none() {
            for b in &acked {
                if !read.iter().any(|r| r.1 == *b) {
                    violation("lost-after-fault", format!("batch {b} was acknowledged into its own file but never delivered (end-of-stream reached)"));
                }
            }
        }
    }
}

pub fn check() -> Check {
    Check {
        property: "C16",
        level: "fault_enumeration",
        scenarios: vec![Box::new(SpillChannel { faults: false }), Box::new(SpillChannel { faults: true })],
        cases_quick: 16_000,
        cases_thorough: 200_000,
        rule: "cases: seeded workloads (spsc or mpsc with 1-3 writers via clone/new_sink, 0-4 batches each incl. empty ones, rotation after every/k/no batches, reader draining or dropped after k, in half of the fault-free cases every writer keeps its sink alive until the reader has delivered that writer's batches (wake-up on data, not only on the last drop), SimDisk read chunking 1B..all, injected Pending and write buffering of 0/24/200/8192 bytes (bytes visible to the reader only at flush/finish)), 40% of them with one scripted disk fault (k-th write/flush/finish/create, torn or not, sticky or not, position spread over the whole run); each case explored under seeded random and PCT shuttle schedules with scheduling points at every pool/file/disk lock. distinct = distinct (case, recorded schedule); non-trivial = some decision had >= 2 runnable tasks",
        assumptions: vec![
            "the disk is SimDisk (in-memory, behind TempFileFactory/SpillFile/SpillWriter); it mirrors the default backend's read-until-EOF-then-end semantics",
            "shuttle executes atomics and locks sequentially consistently",
            "after an injected fault, batches that share a file with the failed operation may be lost or delivered; only duplicates, phantoms, corrupt data, hangs and leaks are violations there",
        ],
        components: json!({
            "real": ["physical-plan/src/spill/spill_pool.rs", "spill/in_progress_spill_file.rs", "spill/spill_manager.rs", "spill/mod.rs (IPCStreamWriter, SpillReaderStream, gc_view_arrays)", "arrow-ipc StreamWriter/StreamDecoder", "execution DiskManager (Custom mode)"],
            "stub": ["disk: dst-simenv SimDisk", "executor: shuttle threads (writers) and shuttle futures (reader)"],
        }),
    }
}
