#!/usr/bin/env bash
# tools/confirm_seeded.sh <worktree> <crate> <test-filter> — confirms an agent's demonstration both ways
# (fails with the change, passes without it) and leaves the worktree with the change applied.
set -u
wt="$1"; crate="$2"; filter="$3"
export CARGO_PROFILE_DEV_DEBUG=0 CARGO_PROFILE_TEST_DEBUG=0
cd "$wt" || exit 2
echo "== with the change:"; cargo test --offline -p "$crate" --lib "$filter" 2>&1 | grep -E "^test result|FAILED|^test .* (ok|FAILED)" | head -8
git apply -R patch.diff || exit 2
echo "== without the change:"; cargo test --offline -p "$crate" --lib "$filter" 2>&1 | grep -E "^test result|^test .* (ok|FAILED)" | head -8
git apply patch.diff
