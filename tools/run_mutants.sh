#!/usr/bin/env bash
# tools/run_mutants.sh [name-filter] — applies every mutant of tools/mutants.txt in the mutation lab, runs the named
# check's quick tier there and appends "name check CAUGHT|MISSED|NOAPPLY|HARNESS ..." to /var/tmp/mlab/mutants.log
set -u
cd "$(dirname "$0")/.."
LAB="${LAB_DIR:-/var/tmp/mlab}"
filter="${1:-}"
grep -v '^#' tools/mutants.txt | while IFS='|' read -r name check file expr; do
  [ -n "$name" ] || continue
  [ -z "$filter" ] || [[ "$name" == *$filter* ]] || continue
  git -C "$LAB/repo" diff --quiet || { echo "lab repo dirty"; exit 2; }
  sed -i -e "$expr" "$LAB/repo/$file"
  if git -C "$LAB/repo" diff --quiet; then echo "$name $check NOAPPLY" | tee -a $LAB/mutants.log; continue; fi
  out="$(cd $LAB/verif && bin/check "$check" 2>&1)"; rc=$?
  git -C "$LAB/repo" checkout -q -- .
  case $rc in
    1) echo "$name $check CAUGHT $(echo "$out" | grep -E 'violation class' | head -1 | cut -c1-160)" ;;
    0) echo "$name $check MISSED $(echo "$out" | tail -1 | cut -c1-120)" ;;
    *) echo "$name $check HARNESS $(echo "$out" | grep -E 'error|HARNESS' | head -2 | tr '\n' ' ' | cut -c1-300)" ;;
  esac | tee -a $LAB/mutants.log
done
