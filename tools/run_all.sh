#!/usr/bin/env bash
# tools/run_all.sh [tier] [ids...] — runs every registered check on /repo as it is, one after the other,
# and prints one line per check (exit code, wall seconds, VIOLATION / KNOWN-FINDING lines).
set -u
cd "$(dirname "$0")/.."
tier="${1:-quick}"; shift || true
ids="$*"
[ -n "$ids" ] || ids="$(python3 -c "import json; print(' '.join(c['property_id'] for c in json.load(open('MANIFEST.json'))['checks']))")"
rc_all=0
for id in $ids; do
  s=$(date +%s.%N)
  out="$(bin/check "$id" --tier "$tier" 2>&1)"; rc=$?
  e=$(date +%s.%N)
  printf "%s rc=%d %.0fs  %s\n" "$id" "$rc" "$(echo "$e - $s" | bc)" "$(echo "$out" | grep -cE '^KNOWN-FINDING') known"
  echo "$out" | grep -E "^VIOLATION|HARNESS" | head -5
  [ "$rc" = 0 ] || rc_all=1
done
exit $rc_all
