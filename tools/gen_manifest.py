#!/usr/bin/env python3
"""Generates /verif/MANIFEST.json from the table below (single source of truth for claims)."""
import json, os, subprocess, sys
ROOT = os.path.dirname(os.path.dirname(os.path.abspath(__file__)))

L2_NOTE = ("Trusted base: shuttle 0.9.3's scheduler and its sequentially consistent model of locks/atomics; the "
           "parking_lot->shuttle shim (vendor/parking_lot-shuttle); sync_point hooks mark every atomic of the anchored "
           "files. Sampling of schedules, not enumeration: a clean run is evidence, not proof.")
L1_NOTE = ("Trusted base: tokio current_thread runtime with paused clock; the SimTask gate (every task spawned through "
           "JoinSetTracer is polled only when the seeded scheduler chooses it); harness sources/pool/disk/object-store "
           "stubs; small reference models. A task poll is the atom of interleaving. Sampling, not enumeration.")

CHECKS = {
 "C15": dict(level="exploration", engine="l2", ref="§3 C15",
   technique="deterministic simulation: seeded random + PCT schedule search (shuttle) over the real channel code, history oracle (FIFO/exactly-once/close rules) and deadlock detection",
   text="Seeded search over interleavings of 1-3 senders x 1-3 channels with drops at every point, at sync-point granularity (every lock and atomic of distributor_channels.rs is a scheduling point). Each schedule's invoke/return history is checked against the channel contract; shuttle reports lost wake-ups as deadlocks. Right level: the property quantifies over schedules of a tiny lock/atomic protocol, which is exactly what a controlled scheduler explores; failures replay from the recorded schedule.",
   note=L2_NOTE),
 "C16": dict(level="fault_enumeration", engine="l2", ref="§3 C16",
   technique="deterministic simulation with fault injection: shuttle schedule search over the real spill pool on a simulated disk with scripted write/flush/finish/create failures (position swept over the run), exactly-once + termination oracle",
   text="Real spill_pool.rs + IPC writer/reader on SimDisk; writers are shuttle threads, the reader a shuttle future. Fault-free cases must deliver exactly the pushed batches (sequence for SPSC, multiset for MPSC) and reach end-of-stream only after the last writer's drop; cases with one scripted disk fault (k-th write/flush/finish/create, torn/sticky variants, k spread over the whole run) must never hang, duplicate, invent or corrupt batches, and must deliver everything acknowledged into other files. In half of the fault-free single-writer cases the writer keeps its sink alive until the reader has delivered its batches, so a wake-up that only the last writer's drop would repair shows as a deadlock (the clause 'the reader is always woken when data becomes available').",
   note=L2_NOTE + " Disk is the in-memory SimDisk behind TempFileFactory/SpillFile/SpillWriter."),
 "C17": dict(level="exploration", engine="l2", ref="§3 C17",
   technique="deterministic simulation: model-based sequential histories plus shuttle schedule search over threads sharing reservations; reference model of pool totals, limits, fair shares, per-consumer and peak metrics",
   text="Sequential histories (<=40 ops, all reservation operations, 3 pool kinds x TrackConsumers x PeakRecording) are compared operation by operation with a reference model; concurrent cases run 2-3 shuttle threads over shared Arc<MemoryReservation>s with scheduling points in front of every atomic and check totals, limits and metrics at quiescence and through a concurrent observer; a third scenario races one resize/try_resize to an absolute size against concurrent growth of the same shared reservation (the pool's total must equal the reservation's size afterwards). Known findings (FairSpillPool per-reservation share check) are listed in known-findings.txt.",
   note=L2_NOTE),
}

def l1(level, ref, technique, text):
    return dict(level=level, engine="l1", ref=ref, technique=technique, text=text, note=L1_NOTE)

CHECKS.update({
 "C10": l1("exploration", "§3 C10",
   "deterministic simulation: seeded task-schedule search over the real RepartitionExec with simulated sources/memory/disk; exactly-once by hidden row id, routing function and ordering oracles, quiescence invariants",
   "Real RepartitionExec (round-robin, hash on 1-3 keys, range on 1-3 keys with 0-7 split points incl. NULL split values, preserve_order) over scripted input partitions (incl. zero-row batches), consumed by one simulated task per output, under memory pressure that forces spilled batches, tiny spill files, early drops of some outputs. Every input row must arrive exactly once at the output hash % n names, at the output the split points select (checked against RangeExpr::evaluate as well), or at any output for round-robin, sorted where order is preserved; rows to dropped outputs are excused; afterwards no task, reservation, spill file or input stream may be left."),
 "C02": l1("exploration", "§3 C02",
   "deterministic simulation: seeded schedules x random semantic-neutral configurations x partitionings of the same SQL query through the real planner; differential oracle against baseline configuration or reference evaluator",
   "The property is an independence statement, so the oracle is differential: one generated query (joins, aggregates, sorts, windows, unions, subqueries) over generated tables split into 1-4 scripted partitions runs under a random configuration, 1-3 copies concurrently in one session, under a seeded task schedule; in a quarter of the runs the tables are Parquet/NDJSON files in the simulated object store behind listing tables (file groups, byte-range repartitioning, the shared work queue of sibling scan partitions, Parquet pruning/pushdown options, chunked and delayed GETs); the result must equal the independent reference where one exists, else the single-partition default-configuration run."),
 "C05": l1("exploration", "§3 C05/C06/C08",
   "deterministic simulation: seeded schedules/partitionings/memory budgets of generated join queries through the real planner; nested-loop reference with SQL three-valued logic",
   "Explores the environment dimension of the statement (arrival interleavings of both sides and sibling partitions, batching, partitioning, memory budget) for every join operator the planner can pick (hash collect-left/partitioned incl. perfect-hash and buffering knobs, sort-merge, nested-loop, piecewise-merge, cross; inner/outer/semi/anti/mark joins, NOT IN, INTERSECT/EXCEPT) plus SymmetricHashJoinExec at operator level over bounded scripted inputs (all join types, null equality, sliding-window filter with pruning, partitioned mode), against an independent nested-loop reference. Join keys are read through casts to Int64/Float64/Decimal/Boolean/Date32/Utf8/Dictionary/Utf8View/UInt16/Int8 in a third of the runs. Not a claim about every key type."),
 "C06": l1("exploration", "§3 C05/C06/C08",
   "deterministic simulation: seeded schedules/partitionings/memory budgets of generated aggregation queries; reference GROUP BY",
   "Single, partial+final, repartitioned, skipped-partial, TopK and spilling aggregation strategies are selected by generated configuration and memory pressure; results are compared with a reference GROUP BY (count, sum, min, max, count distinct, FILTER clauses, first/last/nth_value and string_agg with ORDER BY, bool_and/or, min/max of strings, ROLLUP/CUBE/GROUPING SETS, HAVING, several DISTINCT aggregates, DISTINCT with and without LIMIT, grouped top-k with ties); a quarter of the tables are sorted and say so (ordered and partially ordered aggregation), the legacy and the migrated aggregate streams are both selected by configuration, key and value columns are read through casts to other types in a third of the runs."),
 "C08": l1("exploration", "§3 C05/C06/C08",
   "deterministic simulation: seeded schedules/partitionings/memory budgets of generated ORDER BY [LIMIT] queries; reference stable sort, exact sequence",
   "In-memory, spilling (multi-level merge with tiny spill files) and sort-preserving-merge paths under seeded schedules; the exact output sequence must equal a reference sort with the requested direction/null placement and id tie-break (one and two sort keys, LIMIT/OFFSET, UNION ALL under ORDER BY, window top-n through row_number/rank/dense_rank, LIMIT without order as any-n-of-the-result); tight-memory sorts (large batch size, merge fan-in 2-3, limits of a few KB) drive multi-level merges and the re-spilling of skewed runs; sort keys are read through casts to other types in a third of the runs."),
 "C18": l1("exploration", "§3 C18",
   "deterministic simulation with resource faults: bounded Greedy/FairSpill pools from 0 bytes to ample + noisy neighbour, simulated spill disk; oracle: expected rows or ResourcesExhausted, then release invariants",
   "Generated queries of every spilling operator family under memory limits (fixed steps and arbitrary byte values, a noisy neighbour that grows, shrinks or squeezes the free memory down to a few bytes for a while, merge fan-in 2-8); the outcome must be the exact expected result or an error with ResourcesExhausted in its chain; never a panic, hang (watchdog = quiescence without completion) or wrong result; afterwards pool 0, no spill file, no live task."),
 "C19": l1("fault_enumeration", "§3 C19",
   "deterministic simulation with cancellation injection: output stream dropped at swept points under seeded schedules; quiescence invariants (tasks, input streams, reservations, spill files)",
   "Second clause (keeps yielding): endless always-ready inputs below RepartitionExec, below 11 query shapes planned by the real optimizer, and below operator-level plan shapes (coalesce over 1-3 partitions, limits, unions, filters, top-k, merges, exchanges) protected only by the EnsureCooperative rule. First clause: the crash point is the drop of the result stream (before first poll, after 1..3 batches; merged or per-partition consumption). The simulator then runs to quiescence (virtual time) and requires that no background task is alive, every input stream is released, the pool is at 0 and no spill file exists."),
 "C20": l1("fault_enumeration", "§3 C20",
   "deterministic simulation with fault injection: one scripted source error / source panic / spill-disk failure per run at a swept position, seeded schedules; oracle: error surfaces or result complete, no hang, release invariants",
   "One fault per run, position swept by the generator (input error/panic at any step, a third of them under a bounded pool; UDF failure at row n; spill create/write/flush/finish failure at the k-th call, spill read failure anywhere in the run incl. intermediate merge passes; object-store GET/PUT/part/complete failures); a fault counts once it fired. From then on the query must end with an error (or the injected panic re-raised) or with the complete expected result; a truncated success, a hang or a foreign panic is a violation; afterwards the C19 release invariants."),
 "C21": dict(level="fault_enumeration", engine="l1+l2", ref="§3 C21", note=L1_NOTE + " Accounting histories run on the real DiskManager and real temp files; OS write failures come from RLIMIT_FSIZE (EFBIG). The concurrent part runs under L2 (shuttle).",
   technique="deterministic simulation with fault injection: model-based histories on the real DiskManager with OS write failures (RLIMIT_FSIZE) and limit rejections swept over write positions; IPC round trip through a chunking/Pending-injecting simulated disk under seeded schedules; shuttle schedules for concurrent writers",
   text="(a) mixed-type batch sequences (views, dictionaries, lists, structs, NULLs, slices, empty batches) x codecs x read-buffer sizes round-trip through the real spill writer/reader on SimDisk with seeded read chunking; (b) create/write/finish/clone/drop/set_limit histories on the real disk manager with EFBIG injected at a generated file size and limit rejections: after every step used_disk_space equals the acknowledged bytes of live files, never exceeds the limit after an admitted write, returns to 0, temp files disappear; (c) 2-3 concurrent writers under shuttle."),
 "C31": dict(level="exploration", engine="l1+l2", ref="§3 C31", note=L1_NOTE + " The filter object itself is explored under L2 (shuttle).",
   technique="deterministic simulation: seeded schedules of build/probe/sibling-partition interleavings with scans that accept pushed-down dynamic filters and re-evaluate them per batch, reference-evaluator oracle; shuttle schedule search over the filter object (update/current/cache/wait_complete)",
   text="L1: joins of every type, TopK sorts and grouped aggregates planned by the real optimizer with dynamic filter pushdown forced on, over simulated scans that accept the pushed filters and evaluate current() on every batch; arrival order of build side, probe side and partitions decided by the seeded scheduler; a wrongly pruned row shows up as a row missing from the reference result. Half of the runs read Parquet/NDJSON files through listing tables (row groups of 1-1000 rows, pushdown_filters/reorder_filters/page index/bloom filter options) so that the Parquet opener's dynamic re-pruning runs; recursive CTEs re-execute a hash join with a different build side per iteration. L2: concurrent update/current/with_new_children/mark_complete/wait_complete histories on the real DynamicFilterPhysicalExpr: only published values, monotone per reader, at least every completed update, remap applied, no lost completion wake-up."),
 "C26": l1("exploration", "§3 C26",
   "deterministic simulation of the object-store seam: seeded chunking/Pending/latency of GET bodies under seeded task schedules, byte ranges cut at seeded positions; oracle: concatenation of the ranges equals the file, every range starts at a record start; end-to-end CSV/NDJSON listing scans against the files' records",
   "AlignedBoundaryStream for every range of a seeded partition of a generated file (empty lines, CRLF, trailing newline or not, lines beyond the 16 KiB lookahead; half of the cuts on or next to a line break) over a simulated object store that decides how GET bodies are chunked (1 byte .. whole) and when a chunk is not ready; plus repartitioned CSV/NDJSON scans through ListingTable with tiny repartition_file_min_size and 1-8 partitions."),
 "C40": l1("exploration", "§3 C40",
   "deterministic simulation with a simulated clock and storage: model-based histories on the real DefaultCache (TimeProvider seam) against a reference LRU+TTL map; query/rewrite/add/delete/advance/drop histories on a Parquet listing table over the simulated object store with listing, statistics and metadata caches",
   "Histories of cache operations with the clock advanced by generated amounts around the TTL are compared operation by operation with a reference map (results, memory_used == sum of entries <= limit, len). Session-level histories rewrite, add and delete files between queries; every query planned when the cached listing cannot be valid any more (TTL expired on the simulated clock, table dropped, cache off) or is still current must answer for the current files, including answers taken from statistics."),
 "C50": l1("exploration", "§3 C50",
   "deterministic simulation of unbounded inputs: scripted prefix followed by an endless stream of fresh rows, seeded schedules; bounded liveness in steps (after both inputs produced 600 more batches) and safety against a reference evaluation of the prefix; planning-time rejection accepted",
   "Query shapes over unbounded ordered inputs (filter, UNION ALL, LIMIT, bounded window, lag/lead, ordered GROUP BY and DISTINCT, symmetric hash join, partial sort on an ordered prefix, sort-preserving merge of two ordered inputs, ORDER BY the input order LIMIT n; three blocking shapes that must be rejected) planned by the real optimizer. Everything determined by the prefix minus one batch of slack must be delivered once the inputs have gone on for 600 batches of fresh rows (keys spread over all partitions, values passing and failing the filter), everything delivered from the prefix must be correct, LIMIT must end the stream."),
 "C53": l1("exploration", "§3 C53",
   "deterministic simulation: counting TapExec above every node of real optimizer-built plans under seeded schedules/configurations (incl. spilling); oracle: output_rows metric == rows forwarded for every fully consumed node",
   "The whole SQL corpus under random configurations and schedules; a transparent counting node above every operator; after complete consumption every operator all of whose partition streams reached end-of-stream must report output_rows equal to what its tap forwarded. Spill row metrics are not checked."),
 "C25": l1("exploration", "§3 C25",
   "deterministic simulation of the write path against a simulated object store: seeded request/part latencies (out-of-order multipart completion), seeded task schedules, seeded iteration order of the hive demuxer; oracle: reported count and read-back multiset equal the written rows",
   "COPY TO / INSERT INTO through the real sinks for Parquet, CSV, NDJSON and Arrow (Int64/Utf8 and, in half of the runs, Float64/Boolean/Date32/Decimal columns), single file, directory and hive-partitioned targets with values that need escaping, soft_max_rows_per_output_file 1/3/unlimited, 1-4 parallel files and partitions. Immediately after the statement returns the count must equal the rows written and a fresh listing table with the written schema must read back exactly the written multiset. A claim about completion, assembly and path encoding under schedules and storage latency, on sampled data shapes."),
})

NA = {
 "C01": "pure function of query and data; no schedule, clock, fault or I/O in the statement (its schedule/configuration dimension is C02)",
 "C03": "pure plan-to-plan rewrite equivalence over programs and inputs; nothing a scheduler or fault injector can vary",
 "C04": "pure function of expression and row",
 "C07": "sequential calls on a single-owner accumulator; no fault, schedule or clock involved",
 "C09": "depends only on input and batching; no spill, no cross-partition shared state, no I/O",
 "C11": "arithmetic identity over 2^64 x 2^64 inputs; needs proof or SMT, not schedule search",
 "C12": "pure function of arrays (the thread-local buffer is re-entrancy, not concurrency)",
 "C13": "sequential history on a private structure owned by one operator instance",
 "C14": "pure data-structure behaviour with a single owner",
 "C22": "pure function of predicate and statistics",
 "C23": "pure arithmetic soundness",
 "C24": "pure function of file bytes and options (its dynamic-filter slice is C31)",
 "C27": "pure function of paths and filter",
 "C28": "per-node data check over programs/inputs; no environment dependence (exchange placement is C10)",
 "C29": "pure function of plan and data",
 "C30": "pure per-batch check over programs/inputs",
 "C32": "pure function of arguments",
 "C33": "pure function of expression and data",
 "C34": "pure conversions",
 "C35": "pure serialization round-trip",
 "C36": "pure serialization round-trip",
 "C37": "pure serialization round-trip",
 "C38": "pure text round-trip",
 "C39": "statement is about sequential statement histories on a memory table; a concurrent reading would demand more than it states, the sequential one has no schedule/fault/clock",
 "C41": "pure substitution equivalence",
 "C42": "pure recursion contract",
 "C43": "pure text round-trip",
 "C44": "pure function of file and table schema",
 "C45": "pure call-through equivalence over inputs/programs",
 "C46": "pure validation function",
 "C47": "pure comparison semantics",
 "C48": "pure plan-construction equivalence",
 "C49": "sequential DDL statement semantics; linearizability under concurrent sessions is not what it states",
 "C51": "pure string functions",
 "C52": "pure string functions",
}
PLANNED = []

def main():
    props = [json.loads(l)["id"] for l in open(os.path.join(ROOT, "properties.jsonl"))]
    checks = []
    for pid in props:
        if pid in CHECKS:
            c = CHECKS[pid]
            checks.append({
                "property_id": pid,
                "quick_cmd": f"bin/check {pid} --tier quick",
                "thorough_cmd": f"bin/check {pid} --tier thorough",
                "evidence_file": f"evidence/{pid}.json",
                "replay_cmd_template": "bin/check --replay {path}",
                "engine": c["engine"],
                "level_claimed": {"category": c["level"], "text": c["text"], "design_ref": "DESIGN.md " + c["ref"]},
                "level_note": c["note"],
                "technique": c["technique"],
            })
    na = []
    for pid in props:
        if pid in CHECKS:
            continue
        if pid in NA:
            na.append({"property_id": pid, "reason": NA[pid]})
        elif pid in PLANNED:
            na.append({"property_id": pid, "reason": "not claimed at this commit: its simulation check is designed (DESIGN.md §3) but not built yet"})
        else:
            raise SystemExit(f"property {pid} neither claimed nor classified")
    hooks_commits = subprocess.run(["git", "-C", "/repo", "log", "--format=%H %s"], capture_output=True, text=True).stdout.splitlines()
    hook_shas = [l.split()[0] for l in hooks_commits if l.split(" ", 1)[1].startswith("verif hooks")]
    m = {
        "version": 1,
        "setup_cmd": "bin/check --setup",
        "hooks": {
            "guard": "--cfg datafusion_verif",
            "enable": "RUSTFLAGS=--cfg datafusion_verif, set in /verif/l1/.cargo/config.toml and /verif/l2/.cargo/config.toml ([build] rustflags); the harness workspaces depend on /repo's crates by path",
            "baseline_off_cmd": "cd /repo && cargo nextest run --workspace --no-fail-fast --tool-config-file pb:/w/lib/nextest.toml --profile pb --test-threads 8 --offline",
            "source_commits": hook_shas,
            "add_only": True,
        },
        "engines": [
            {"name": "l2", "path": "l2/", "serves_properties": [p for p in props if p in CHECKS and "l2" in CHECKS[p]["engine"]],
             "kind_free_text": "sync-point-level deterministic simulator: real DataFusion data structures under shuttle's seeded random/PCT schedulers, parking_lot patched onto shuttle, sync_point hooks at atomics, SimDisk fault injection, recorded schedules as replay files"},
            {"name": "l1", "path": "l1/", "serves_properties": [p for p in props if p in CHECKS and "l1" in CHECKS[p]["engine"]],
             "kind_free_text": "task-level deterministic simulator: real operators/sessions on a tokio current_thread runtime with paused clock, every spawned task gated by a seeded scheduler through the JoinSetTracer seam, simulated sources/memory neighbour/disk/object store/clock with scripted faults, fork-per-seed isolation"},
        ],
        "checks": checks,
        "not_applicable": na,
        "notes": "All checks: exit 0 = held, 1 = VIOLATION line + replay file, 2 = harness error (build failure, nondeterministic replay). VERIF_SEED selects the base seed (default fixed). Known findings are listed in known-findings.txt and printed as KNOWN-FINDING lines.",
    }
    json.dump(m, open(os.path.join(ROOT, "MANIFEST.json"), "w"), indent=1)
    print("MANIFEST.json:", len(checks), "checks,", len(na), "not applicable")

if __name__ == "__main__":
    main()
