#!/usr/bin/env bash
# tools/regress_seeded.sh [lab-dir] [start] [step] — re-runs every stored seeded defect (seeded/*/patch.diff) against
# the current harness in a lab and records CAUGHT/MISSED per defect in <lab>/seeded_regress.log
set -u
cd "$(dirname "$0")/.."
export LAB_DIR="${1:-/var/tmp/mlab}"; start="${2:-0}"; step="${3:-1}"
i=0
for d in seeded/*/; do
  i=$((i+1)); [ $(( (i - 1) % step )) -eq "$start" ] || continue
  name="$(basename "$d")"
  prop="$(python3 -c "import json,sys; print(json.load(open(sys.argv[1]))['property'])" "$d/meta.json")"
  out="$(tools/lab.sh patch "$PWD/$d/patch.diff" "$prop" 2>&1)"
  if echo "$out" | grep -q "patch does not apply"; then res="NOAPPLY"
  elif echo "$out" | grep -q "^exit=1"; then res="CAUGHT $(echo "$out" | grep -o 'violation class=[^ ]*' | head -1)"
  elif echo "$out" | grep -q "^exit=0"; then res="MISSED"
  else res="HARNESS $(echo "$out" | tail -2 | tr '\n' ' ' | cut -c1-200)"; fi
  echo "$name $prop $res" | tee -a "$LAB_DIR/seeded_regress.log"
done
