#!/usr/bin/env bash
# tools/lab.sh — a "mutation lab": a scratch copy of the harness (/var/tmp/mlab/verif) wired to a scratch
# worktree of /repo (/var/tmp/mlab/repo), so that seeded defects and mutants can be tried without ever
# touching /repo (registered checks, vp check and background sweeps keep using the real tree).
#   lab.sh sync                         refresh the lab copy of the harness and reset the lab repo to /repo HEAD
#   lab.sh patch <diff> <id> [tier]     apply a patch in the lab repo, run the check there, undo
#   lab.sh sed <file> <sed-expr> <id> [tier]   one-line mutant
#   lab.sh run <id> [tier]              run the check on the (unpatched) lab repo
#   lab.sh rm                           delete the lab
set -u
LAB="${LAB_DIR:-/var/tmp/mlab}"
VERIF="$(cd "$(dirname "$0")/.." && pwd)"
sync_lab() {
  mkdir -p "$LAB"
  if [ ! -d "$LAB/repo" ]; then git -C /repo worktree add --detach "$LAB/repo" HEAD >/dev/null || exit 2; fi
  git -C "$LAB/repo" checkout -q -- . && git -C "$LAB/repo" checkout -q --detach "$(git -C /repo rev-parse HEAD)" || exit 2
  rsync -a --delete --exclude target --exclude .git --exclude evidence --exclude replays --exclude seeded "$VERIF/" "$LAB/verif/"
  mkdir -p "$LAB/verif/evidence" "$LAB/verif/replays"
  sed -i "s#\"/repo/#\"$LAB/repo/#g" "$LAB/verif/l1/Cargo.toml" "$LAB/verif/l2/Cargo.toml" "$LAB/verif/simenv/Cargo.toml" "$LAB/verif/common/Cargo.toml"
}
filter() { grep -E "^VIOLATION|violation class|KNOWN-FINDING|HARNESS|runs \(|schedules \(|cases \(|error(\[|:)" | cut -c1-260 | sort | uniq -c | sort -rn | head -12; }
run_check() { (cd "$LAB/verif" && VERIF_SCALE="${VERIF_SCALE:-1}" bin/check "$1" --tier "${2:-quick}" 2>&1; echo "exit=$?") | { tee "$LAB/last.log" | filter; tail -1 "$LAB/last.log"; }; }
case "${1:-}" in
  sync) sync_lab ;;
  run) run_check "$2" "${3:-quick}" ;;
  patch)
    git -C "$LAB/repo" diff --quiet || { echo "lab repo dirty"; exit 2; }
    git -C "$LAB/repo" apply "$2" || { echo "patch does not apply"; exit 2; }
    run_check "$3" "${4:-quick}"
    git -C "$LAB/repo" checkout -q -- . ;;
  sed)
    git -C "$LAB/repo" diff --quiet || { echo "lab repo dirty"; exit 2; }
    sed -i "$3" "$LAB/repo/$2"
    if git -C "$LAB/repo" diff --quiet; then echo "MUTANT DID NOT APPLY"; exit 2; fi
    git -C "$LAB/repo" diff | grep '^[-+]' | grep -v '^+++\|^---' | head -8
    run_check "$4" "${5:-quick}"
    git -C "$LAB/repo" checkout -q -- . ;;
  rm) git -C /repo worktree remove --force "$LAB/repo"; rm -rf "$LAB" ;;
  *) echo "usage: lab.sh sync|run|patch|sed|rm"; exit 2 ;;
esac
