#!/usr/bin/env bash
# tools/store_seeded.sh <worktree> <name> <property> <needs> <confirmed> <detected_by>
# Stores a confirmed seeded defect under seeded/<name>/ and removes the scratch worktree with its build output.
set -u
wt="$1"; name="$2"; prop="$3"; needs="$4"; confirmed="$5"; detected="$6"
d="$(cd "$(dirname "$0")/.." && pwd)/seeded/$name"
mkdir -p "$d"
cp "$wt/patch.diff" "$d/patch.diff" || exit 2
[ -f "$wt/demo.diff" ] && cp "$wt/demo.diff" "$d/demo.diff"
[ -f "$wt/NOTES.md" ] && cp "$wt/NOTES.md" "$d/NOTES.md"
python3 - "$d/meta.json" "$prop" "$needs" "$confirmed" "$detected" <<'PY'
import json,sys
json.dump({"property":sys.argv[2],"origin":"independent sub-agent given only the property text and a scratch worktree (round 2)","needs_to_manifest":sys.argv[3],"confirmed":sys.argv[4],"detected_by":sys.argv[5]}, open(sys.argv[1],"w"), indent=1)
PY
git -C /repo worktree remove --force "$wt" && echo "stored $name, removed $wt"
