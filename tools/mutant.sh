#!/usr/bin/env bash
# tools/mutant.sh <file-under-/repo> <sed-expression> <check-id> [scale] — apply a one-line mutant to /repo,
# run the quick check, restore /repo. For sensitivity testing only (never committed to /repo).
set -u
f="$1"; expr="$2"; id="$3"; scale="${4:-1}"
cd /repo && git diff --quiet || { echo "repo dirty"; exit 2; }
sed -i "$expr" "/repo/$f"
if git diff --quiet; then echo "MUTANT DID NOT APPLY"; exit 2; fi
git diff | grep '^[-+]' | grep -v '^+++\|^---' | head -6
cd /verif && VERIF_SCALE="$scale" bin/check "$id" 2>&1 | grep -E "VIOLATION|violation class|HARNESS|runs|schedules \(" | head -6
cd /repo && git checkout -- . 
