#!/usr/bin/env bash
# tools/try_seeded.sh <patch.diff> <check-id> [tier] — apply a seeded defect to /repo, run the check, undo.
set -u
patch="$1"; id="$2"; tier="${3:-quick}"
cd /repo && git diff --quiet || { echo "repo dirty"; exit 2; }
git apply "$patch" || { echo "patch does not apply"; exit 2; }
cd /verif && bin/check "$id" --tier "$tier" 2>&1 | grep -E "VIOLATION|violation class|KNOWN|HARNESS|runs \(|schedules \(" | cut -c1-300
cd /repo && git checkout -- . && git status --short | head -3
